"""C11 -- outputs do not depend on how the same numbers are passed in.

Stage A  TLC: Representations.tla -- the product detector x entry point x container x dtype x index x
         column labels, with the conversions of the entry points modelled by what they preserve:
         ValuesPreserved, IndexCarried.
Stage B  every grid point is replayed: the detector is driven through that entry point with that
         representation and, in parallel, with the canonical one (float64 DataFrame, default columns;
         for `update` the same rows at the same positions, appended and overlapping); integer locations, labels, scores, fitted thresholds
         and the index of dense outputs are compared.  The same for the interval scorers
         (fit / evaluate for array, Series, DataFrame input).
"""

from __future__ import annotations

from concurrent.futures import ProcessPoolExecutor

import numpy as np
import pandas as pd

from .. import stages
from ..common import Check, sha
from ..tlc import Workdir

PROP = "C11"
N_ROWS = 26


# integer-typed input also with magnitudes at which SQUARES (or their sums) no longer fit the integer type itself while
# every value and every statistic is still exact in float64: int64 around 1e9, int32 around 1e5, int16 around 1e3; int8 holds
# the values (|v| <= 16) but not their squares.  Seeded changes C11-b, C06-e, C11-e.
MAGS = {"float64": [1.0], "int64": [1.0, 1e8, 1e9], "int32": [1.0, 1e4], "int16": [1.0, 100.0], "int8": [1.0]}


def values(p, halves, seed=0):
    rng = np.random.default_rng(100 + seed)
    X = rng.integers(-2, 3, size=(N_ROWS + 10, p)).astype(float)
    X[8:] += 6
    X[17:] -= 9
    X[3] += 12
    X[28:] += 7
    if halves:
        X += 0.5 * rng.integers(0, 2, size=X.shape)
    return X


def make_index(kind, start, n):
    if kind == "range0":
        return pd.RangeIndex(start, start + n)
    if kind == "offset":
        return pd.RangeIndex(5 + start, 5 + start + n)
    if kind == "step":
        return pd.RangeIndex(3 * start, 3 * (start + n), 3)
    if kind == "datetime":
        return pd.date_range("2021-03-01", periods=start + n, freq="D")[start:]
    return pd.period_range("2021-03", periods=start + n, freq="M")[start:]


def represent(V, cont, dtype, idx, cols, start=0):
    A = V.astype(np.dtype(dtype))
    n, p = A.shape
    if cont == "ndarray2d":
        return A.copy()
    if cont == "ndarray1d":
        return A[:, 0].copy()
    index = make_index(idx, start, n)
    if cont == "series":
        return pd.Series(A[:, 0].copy(), index=index)
    names = [f"col_{j}" for j in range(p)] if cols == "strings" else list(range(p))
    return pd.DataFrame(A.copy(), index=index, columns=names)


def expected_index(X, cont, idx, start, n):
    return make_index(idx, start, n) if cont in ("series", "frame") else pd.RangeIndex(n)


def project(obj):
    """Values only (locations, labels, scores), index separately."""
    if isinstance(obj, pd.Series):
        obj = obj.to_frame()
    out = []
    for c in obj.columns:
        col = obj[c]
        if isinstance(col.dtype, pd.IntervalDtype):
            out.append([(int(i.left), int(i.right)) for i in col])
        else:
            out.append([np.asarray(v).tolist() if isinstance(v, np.ndarray) else float(v) for v in col])
    return out


def close(a, b):
    if isinstance(a, (list, tuple)) and isinstance(b, (list, tuple)):
        return len(a) == len(b) and all(close(x, y) for x, y in zip(a, b))
    if isinstance(a, float) or isinstance(b, float):
        return abs(a - b) <= 1e-10 * max(1.0, abs(b))
    return a == b


def detector_for(name):
    from ..zoo import detector_specs

    from skchange.costs import GaussianVarCost, L2Cost

    cls, plist = detector_specs()[name]
    out = [(cls, params) for params in plist[:2]]
    # fixed, NON-INTEGER scorer parameters: an integer-typed input must not truncate them
    extra = {"PELT": dict(cost=L2Cost(param=0.5), min_segment_length=2, penalty_scale=0.3),
             "CAPA": dict(collective_saving=L2Cost(param=0.5), point_saving=L2Cost(param=0.25), min_segment_length=2, max_segment_length=8,
                          collective_penalty_scale=0.3, point_penalty_scale=0.3),
             "MVCAPA": dict(collective_saving=GaussianVarCost(param=(0.5, 1.5)), min_segment_length=2, max_segment_length=8,
                            collective_penalty_scale=0.3, point_penalty_scale=0.3),
             "MovingWindow": dict(change_score=L2Cost(param=0.5), bandwidth=3, threshold_scale=0.5),
             "CircularBinarySegmentation": dict(anomaly_score=GaussianVarCost(param=(0.5, 1.5)), min_segment_length=2, max_interval_length=10,
                                                threshold_scale=0.5)}
    if name in extra:
        out.append((cls, extra[name]))
    return out


def replay_case(case):
    import warnings

    warnings.filterwarnings("ignore")
    det, entry, cont, dtype, idx, cols, p, halves = (case[k] for k in ("det", "entry", "cont", "dtype", "idx", "cols", "p", "halves"))
    fails = []
    # integer-typed input also with LARGE magnitudes (values around 1e8, still exact in float64): integer arithmetic
    # on prefix sums must not overflow where the float path is fine
    for mag in MAGS[dtype]:
        fails += _replay_one(case, values(p, halves) * mag, "" if mag == 1.0 else f"x{mag:g}")
    return fails


def _replay_one(case, V, magtag):
    det, entry, cont, dtype, idx, cols, p, halves = (case[k] for k in ("det", "entry", "cont", "dtype", "idx", "cols", "p", "halves"))
    fails = []
    A, B = V[:N_ROWS], V[N_ROWS:]
    for cls, params in detector_for(det):
        if magtag and any("param" in repr(v) for v in params.values()):
            continue  # fixed-parameter scorers describe data of unit scale
        tag = {"detector": det, "params": repr(params)[:120], "entry": entry, "rep": [cont, dtype, idx, cols], "magnitude": magtag}
        if params.get("collective_penalty") == "intermediate" and p < 2:
            continue
        cA = represent(A, "frame", "float64", "range0", "default")
        rA = represent(A, cont, dtype, idx, cols)
        for ov in ((0, 6) if entry == "update" and cont in ("series", "frame") else (0,)):
            fails += _drive(cls, params, {**tag, **({"overlap": ov} if ov else {})}, entry, cont, dtype, idx, cols, cA, rA, B, ov)
    return fails


def _drive(cls, params, tag, entry, cont, dtype, idx, cols, cA, rA, B, ov):
    """One detector, one entry point, one representation against the canonical one.  For `update` the new rows start
    `ov` rows before the end of the fitted rows (ov > 0: re-sent rows are replaced, the rest appended); the canonical
    run has the same rows at the same POSITIONS under the default range index."""
    fails = []
    try:
        ref = cls(**params)
        tst = cls(**params)
        if entry == "fit":
            ref.fit(cA)
            tst.fit(rA)
            outs = [(m, getattr(ref, m)(cA), getattr(tst, m)(cA)) for m in ("predict", "transform")]
        elif entry == "update":
            cB = represent(B, "frame", "float64", "range0", "default", start=N_ROWS - ov if cont in ("series", "frame") else 0)
            rB = represent(B, cont, dtype, idx, cols, start=N_ROWS - ov)
            ref.fit(cA).update(cB)
            tst.fit(rA).update(rB)
            outs = [(m, getattr(ref, m)(cA), getattr(tst, m)(cA)) for m in ("predict",)]
        else:
            ref.fit(cA)
            tst.fit(cA)
            if entry == "transform_scores" and not hasattr(cls, "_transform_scores") or \
                    (entry == "transform_scores" and cls._transform_scores is __import__("skchange.base", fromlist=["BaseDetector"]).BaseDetector._transform_scores):
                return fails
            outs = [(entry, getattr(ref, entry)(cA), getattr(tst, entry)(rA))]
    except Exception as e:
        fails.append(("raises", {**tag, "error": repr(e)[:200]}))
        return fails
    for attr in ("threshold_", "penalty_", "collective_penalty_", "point_penalty_"):
        if hasattr(ref, attr) and not close(float(getattr(ref, attr)), float(getattr(tst, attr))):
            fails.append(("fitted_parameter_differs", {**tag, "attr": attr, "canonical": float(getattr(ref, attr)), "got": float(getattr(tst, attr))}))
    # the public `scores` attribute written by predict (DP table / per-interval table) must agree as well
    if entry in ("fit", "predict") and hasattr(ref, "scores") and hasattr(tst, "scores"):
        try:
            if not close(project(ref.scores), project(tst.scores)):
                fails.append(("scores_attribute_differs_from_canonical_representation",
                              {**tag, "canonical": str(project(ref.scores))[:200], "got": str(project(tst.scores))[:200]}))
        except Exception as e:
            fails.append(("raises", {**tag, "error": "scores: " + repr(e)[:150]}))
    for m, a, b in outs:
        if not close(project(a), project(b)):
            fails.append(("output_differs_from_canonical_representation", {**tag, "method": m, "canonical": str(project(a))[:200], "got": str(project(b))[:200]}))
        elif m in ("transform", "transform_scores") and entry in ("transform", "transform_scores") and len(b) == N_ROWS:
            want = expected_index(rA, cont, idx, 0, N_ROWS)
            if not (type(b.index) is type(want) and b.index.equals(want)):
                fails.append(("dense_output_does_not_carry_the_input_index", {**tag, "method": m, "index": str(b.index)[:120]}))
    return fails


def scorer_cases():
    from skchange.anomaly_scores import L2Saving, LocalAnomalyScore, Saving
    from skchange.change_scores import CUSUM, ChangeScore
    from skchange.costs import GaussianCovCost, GaussianVarCost, L2Cost

    return [("L2Cost()", lambda: L2Cost(), [[0, 5], [3, 12]]), ("L2Cost(1)", lambda: L2Cost(param=1.0), [[0, 5], [3, 12]]),
            ("L2Cost(0.5)", lambda: L2Cost(param=0.5), [[0, 5], [3, 12]]),
            ("GaussianVarCost((0.5,1.5))", lambda: GaussianVarCost(param=(0.5, 1.5)), [[0, 5], [3, 12]]),
            ("GaussianCovCost((0.5,1.5))", lambda: GaussianCovCost(param=(0.5, 1.5)), [[0, 7], [3, 14]]),
            ("Saving(L2Cost(0.5))", lambda: Saving(L2Cost(param=0.5)), [[0, 5]]),
            ("GaussianVarCost()", lambda: GaussianVarCost(), [[0, 5], [3, 12]]), ("GaussianCovCost()", lambda: GaussianCovCost(), [[0, 7], [3, 14]]),
            ("CUSUM()", lambda: CUSUM(), [[0, 3, 9], [2, 8, 20]]), ("ChangeScore(L2Cost())", lambda: ChangeScore(L2Cost()), [[0, 3, 9]]),
            ("L2Saving()", lambda: L2Saving(), [[0, 5], [3, 12]]), ("Saving(L2Cost(0))", lambda: Saving(L2Cost(param=0.0)), [[0, 5]]),
            ("LocalAnomalyScore(L2Cost())", lambda: LocalAnomalyScore(L2Cost()), [[0, 3, 8, 12]]),
            ("LocalAnomalyScore(GaussianVarCost())", lambda: LocalAnomalyScore(GaussianVarCost()), [[0, 3, 8, 12]])]


def replay_scorers(args):
    import warnings

    warnings.filterwarnings("ignore")
    cont, dtype, idx, cols, p, halves = args
    fails = []
    n_eval = 0
    for name, mk, cuts, mag in [(n_, m_, c_, 1.0) for n_, m_, c_ in scorer_cases()] + \
            ([(n_ + f" x{mg:g}", m_, c_, mg) for mg in MAGS[dtype][1:] for n_, m_, c_ in scorer_cases() if "(0" not in n_ and "(1" not in n_]
             if dtype != "float64" else []):
        V = values(p, halves)[:N_ROWS] * mag
        n_eval += 1
        try:
            a = mk().fit(represent(V, "frame", "float64", "range0", "default")).evaluate(np.array(cuts))
            b = mk().fit(represent(V, cont, dtype, idx, cols)).evaluate(np.array(cuts))
            if a.shape != b.shape or not np.allclose(a, b, rtol=1e-9, atol=1e-10 * mag * mag):
                fails.append(("scorer_output_differs", {"scorer": name, "rep": [cont, dtype, idx, cols], "canonical": a.tolist(), "got": b.tolist()}))
        except Exception as e:
            fails.append(("raises", {"scorer": name, "rep": [cont, dtype, idx, cols], "error": repr(e)[:200]}))
    return fails, n_eval


def _chunk(cases):
    return [replay_case(c) for c in cases]


def run(tier: str) -> int:
    chk = Check(PROP, tier)
    chk.rule = ("the full product 7 detectors x 5 entry points x {2-D array, 1-D array, Series, DataFrame} x {float64, int64} x "
                "{RangeIndex 0.., offset, stepped, DatetimeIndex, PeriodIndex} x {default, string columns} x p in {1,2} x "
                "{integer, half-integer values} (2775 grid points from TLC, exhaustive), two parameter sets per detector; "
                "plus 14 scorers (incl. fixed non-integer parameters) x the representation grid.  Non-trivial = the representation differs from the canonical "
                "one in container, dtype, index or columns; distinct grid points.")
    chk.assumptions = ["TLC/SANY and the Json module", "`update` aligns on index labels: the canonical run has the same rows at the same positions under the "
                       "default range index (pure append and a 6-row overlap); arrays are frames with the default index of "
                       "the piece passed in",
                       "tolerance 1e-10 relative on scores"]
    with Workdir(PROP) as wd:
        cs = dict(N=4, Conv="code", Emit=False)
        stages.model_check(chk, "Representations", cs, ["ValuesPreserved", "IndexCarried"], wd=wd, label="A:grid")
        cases = stages.emit_cases(chk, "Representations", {"N": 4, "Conv": "code"}, wd=wd, label="B:grid", invariants=("EmitCase",))
        cases = [{k: v for k, v in c.items()} for c in cases]
        with ProcessPoolExecutor(max_workers=stages.NCPU) as ex:
            chunks = [cases[i::64] for i in range(64) if cases[i::64]]
            for chunk, ress in zip(chunks, ex.map(_chunk, chunks)):
                for case, fails in zip(chunk, ress):
                    nontrivial = not (case["cont"] == "frame" and case["dtype"] == "float64" and case["idx"] == "range0" and case["cols"] == "default")
                    chk.case(case, nontrivial=nontrivial, key=sha(case))
                    chk.traces += 1
                    for clause, obs in fails:
                        chk.violation({"stage": "B", "case": case, "observed": obs}, clause,
                                      {"clause": clause, "detector": obs.get("detector"), "entry": obs.get("entry"), "cont": case["cont"]})
        reps = sorted({(c["cont"], c["dtype"], c["idx"], c["cols"], c["p"], c["halves"]) for c in cases})
        with ProcessPoolExecutor(max_workers=stages.NCPU) as ex:
            for rep, (fails, n_eval) in zip(reps, ex.map(replay_scorers, reps)):
                chk.evaluations += n_eval
                for clause, obs in fails:
                    chk.violation({"stage": "B", "rep": list(rep), "observed": obs}, clause,
                                  {"clause": clause, "scorer": obs.get("scorer"), "cont": rep[0]})
    chk.exhaustive = True
    return chk.finish()


def replay(body) -> int:
    rec = body["case"]
    if "case" in rec:
        f = replay_case(rec["case"])
        print(f)
        return 1 if f else 0
    print(rec)
    return 1
