"""C04 -- detections are well-formed and respect the configured length limits.

Stage A  TLC: the well-formedness conjuncts are invariants of the terminal states of the algorithm
         models -- Pelt.tla (BacktrackOptimal: strictly increasing, every segment >= M), Capa.tla
         (WellFormed: lengths in [M, Mx] or 1, disjoint, inside [0, n]), SeededBinseg.tla (Spacing for
         both modes: changepoints M apart and M from the ends; anomalies disjoint, >= M long, strictly
         inside), MovingWindow.tla (PeakOfRun: inside [b, n-b], increasing), Anomaliser.tla (Sorted) --
         over every enumerated table, which includes constant data, ties, isolated spikes and events at
         the first / last admissible position.
Stage C  predict outputs of all seven detectors over the configuration grid of the zoo x lattice data
         shapes (constant, level shifts, adjacent anomalies, spikes at the first / last sample, ties,
         n from the minimum length up, p in 1..4) are projected (range index, int64, left-closed
         intervals, labels 1..K read off the frame as booleans) and validated by Trace_Formats.tla.
"""

from __future__ import annotations

from concurrent.futures import ProcessPoolExecutor

import numpy as np
import pandas as pd

from .. import stages
from ..binseg import consts as bconsts
from ..common import Check, sha
from ..project import index_kinds, project_sparse
from ..tlc import Workdir
from .c02 import base_consts
from .c03 import consts as capa_consts
from .c08 import consts as mw_consts
from .c17 import consts as an_consts

PROP = "C04"


def record(args):
    import warnings

    warnings.filterwarnings("ignore")
    from ..zoo import detector_specs, lattice_data, limits, min_length

    seed, count = args
    rng = np.random.default_rng(seed)
    specs = detector_specs()
    names = list(specs)
    out = []
    for i in range(count):
        name = names[i % len(names)]
        cls, plist = specs[name]
        params = plist[int(rng.integers(0, len(plist)))]
        p = 1 if name == "StatThresholdAnomaliser" else int(rng.integers(1, 5))
        if params.get("collective_penalty") == "intermediate" and p < 2:
            p = 2
        cost = params.get("cost")
        lo = min_length(name, params)
        if cost is not None and "GaussianVar" in repr(cost):
            lo = max(lo, 2 * max(2, params["min_segment_length"]))
        n = lo + int(rng.choice([0, 0, 1, 2, 3, 7, 15, 30]))
        kind = int(rng.integers(0, 7))
        if callable(params.get("collective_penalty")) and rng.integers(0, 3) > 0:
            kind = 7   # dense but weak: the summed saving carries the anomaly, no single column does
        X = lattice_data(rng, max(n, 1), p, kind=kind)
        if np.all(X == np.round(X)) and rng.integers(0, 3) == 0:
            X = X.astype(np.int64)       # integer-typed input is valid input
        rid = f"w-{seed}-{i}"
        rep = "ndarray"
        if rng.integers(0, 3) > 0:
            # the detections are integer LOCATIONS whatever index the data carry (offset / stepped / negative range index,
            # dates, periods, repeated values): two thirds of the runs get a frame with one of them
            rep = str(rng.choice(list(index_kinds(len(X)))))
            X = pd.DataFrame(X, index=index_kinds(len(X))[rep], columns=[f"v{j}" for j in range(p)])
        try:
            det = cls(**params).fit(X)
            y = det.predict(X)
        except RuntimeError:
            continue  # documented non-PD escape
        except Exception as e:
            out.append({"id": rid, "error": repr(e)[:200], "det": name, "params": repr(params)[:200], "n": n, "p": p, "kind": kind})
            continue
        lim = limits(name, params, len(X))
        sparse, ok = project_sparse(y, lim["kind"])
        out.append({"id": rid, "rec": "output", "det": name, "params": repr(params)[:200], "n": len(X), "p": p, "data_kind": kind, "index": rep,
                    "sparse": sparse, "frame_ok": bool(ok), "minseg": lim.get("minseg", 0), "lo": lim.get("lo", 0), "hi": lim.get("hi", 0),
                    "lengths": lim.get("lengths", "none"), "m": lim.get("m", 1), "mx": lim.get("mx", 0), "kind": lim["kind"]})
    return out


def run(tier: str) -> int:
    chk = Check(PROP, tier)
    chk.rule = ("stage A: every table of the algorithm models within small constants; stage C: 7 detectors x 2..4 parameter sets "
                "(incl. min_segment_length = 1, bandwidth = 1, max_interval_length = 2*min_segment_length, max = min segment "
                "length) x 7 data shapes x n from the minimum length up x p in 1..4 x {array, frame on one of 8 index kinds}, seeded.  Non-trivial = at least one "
                "detection in the output; distinct by hash of (detector, parameters, data).")
    chk.assumptions = ["TLC/SANY and the Json module", "dtype / closedness / index facts are read off the frame by the projection and "
                       "passed to TLC as booleans", "the configuration grid around the documented bounds is C14's (its OK outputs go "
                       "through the same predicate)"]
    with Workdir(PROP) as wd:
        stages.model_check(chk, "Pelt", base_consts(N=5, M=2, V=1, MaxBeta=2), ["BacktrackOptimal"], wd=wd, label="A:pelt", init="InitAll")
        stages.model_check(chk, "Capa", capa_consts(N=4, V=1, Mx=3, CAs={0, 1}, PAs={0, 1}), ["WellFormed"], wd=wd, label="A:capa")
        stages.model_check(chk, "SeededBinseg", bconsts("contains", N=5, L=5), ["Spacing", "NoDuplicates"], wd=wd, label="A:seeded")
        stages.model_check(chk, "SeededBinseg", bconsts("overlaps"), ["Spacing", "NoDuplicates"], wd=wd, label="A:circular")
        stages.model_check(chk, "MovingWindow", mw_consts(N=7, B=2), ["PeakOfRun"], wd=wd, label="A:moving-window")
        stages.model_check(chk, "Anomaliser", an_consts(N=3), ["Sorted", "FlagsExactly"], wd=wd, label="A:anomaliser")
        if tier == "thorough":
            stages.model_check(chk, "Capa", capa_consts(N=5, V=1, Mx=4, CAs={0, 1}, PAs={1, 2}), ["WellFormed"], wd=wd, label="A:capa-N5")
            stages.model_check(chk, "Pelt", base_consts(N=6, M=2, V=1, MaxBeta=1), ["BacktrackOptimal"], wd=wd, label="A:pelt-N6", init="InitAll")
        count = 200 if tier == "quick" else 6000
        with ProcessPoolExecutor(max_workers=stages.NCPU) as ex:
            recs = [r for part in ex.map(record, [(chk.seed + k, count) for k in range(16)]) for r in part]
        for r in [r for r in recs if "error" in r]:
            chk.case(r)
            chk.violation({"stage": "C", "record": r}, "raises", {"clause": "raises", "det": r["det"], "params": r["params"]})
        recs = [r for r in recs if "error" not in r]
        slim = [{k: v for k, v in r.items() if k not in ("params", "data_kind", "index")} for r in recs]
        verdicts = stages.validate_traces(chk, "Trace_Formats", slim, wd=wd, label="C:outputs", batch=400)
        for r in recs:
            v = verdicts.get(r["id"])
            chk.case(r, nontrivial=len(r["sparse"]) > 0, key=sha([r["det"], r["params"], r["n"], r["p"], r["data_kind"], r["sparse"]]))
            if v and v != "ok":
                clause = v.split(":", 1)[1]
                chk.violation({"stage": "C", "record": r, "verdict": v}, clause, {"clause": clause, "det": r["det"]})
    return chk.finish()


def replay(body) -> int:
    print(body["case"])
    return 1
