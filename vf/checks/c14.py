"""C14 -- documented-valid configurations always run; invalid ones fail with ValueError.

Stage A  TLC: Config.tla -- the decision table (documented domain, minimum length, scorer too coarse)
         against the order of checks in the constructors / fit / predict; OK implies non-empty search
         ranges.
Stage B  every grid point TLC enumerates (all seven detectors; each hyper-parameter below / at / above
         its documented bound, one scale at a time; scorer with minimum size 1 or 2; data length
         MinLen-1 .. MinLen+2 and a comfortable one; NaN or not; p in 1..3) is constructed, fitted and
         predicted; the observed outcome class must be the expected one; OK outputs are handed to
         C04's well-formedness predicate (Trace_Formats.tla).
"""

from __future__ import annotations

from concurrent.futures import ProcessPoolExecutor

import numpy as np
import pandas as pd

from .. import stages
from ..common import Check, sha
from ..project import project_sparse
from ..tlc import Workdir

PROP = "C14"
SCALE = {"neg": -0.1, "zero": 0.0, "pos": 2.0, "none": None}
GROWTH = {"g100": 1.0, "g101": 1.01, "g150": 1.5, "g200": 2.0, "g201": 2.01}
LEVEL = {"l0": 0.0, "l10": 0.1, "l100": 1.0}
LOHI = {"lt": (-1.0, 1.0), "eq": (0.5, 0.5), "gt": (1.0, -1.0)}


def make_data(n, p, nan, seed):
    rng = np.random.default_rng(seed + 17 * n + p)
    n = max(n, 0)
    X = rng.integers(-1, 2, size=(n, p)).astype(float)
    if n >= 4:
        X[n // 2:] += 7.0
        X[n // 4] -= 11.0
    if nan and n > 0:
        X[int(rng.integers(0, n)), int(rng.integers(0, p))] = np.nan
    return pd.DataFrame(X)


def construct(case):
    from skchange.anomaly_detectors import CAPA, MVCAPA, CircularBinarySegmentation, StatThresholdAnomaliser
    from skchange.change_detectors import PELT, MovingWindow, SeededBinarySegmentation
    from skchange.costs import GaussianVarCost

    d = case["det"]
    sc, sc2, m = SCALE[case["scale"]], SCALE[case["scale2"]], case["m"]
    coarse = GaussianVarCost() if case["ms"] == 2 else None
    if d == "PELT":
        return PELT(cost=coarse, penalty_scale=sc, min_segment_length=m)
    if d == "MovingWindow":
        return MovingWindow(change_score=coarse, bandwidth=case["bw"], threshold_scale=sc)
    if d == "SeededBinarySegmentation":
        return SeededBinarySegmentation(change_score=coarse, threshold_scale=sc, level=LEVEL[case["level"]], min_segment_length=m,
                                        max_interval_length=2 * m + case["loff"], growth_factor=GROWTH[case["growth"]])
    if d == "CircularBinarySegmentation":
        return CircularBinarySegmentation(anomaly_score=coarse, threshold_scale=sc, level=LEVEL[case["level"]], min_segment_length=m,
                                          max_interval_length=2 * m + case["loff"], growth_factor=GROWTH[case["growth"]])
    if d == "CAPA":
        return CAPA(collective_penalty_scale=sc, point_penalty_scale=sc2, min_segment_length=m, max_segment_length=m + case["mxoff"])
    if d == "MVCAPA":
        return MVCAPA(collective_penalty_scale=sc, point_penalty_scale=sc2, min_segment_length=m, max_segment_length=m + case["mxoff"])
    lo, hi = LOHI[case["lohi"]]
    return StatThresholdAnomaliser(PELT(min_segment_length=1, penalty_scale=0.5), stat_lower=lo, stat_upper=hi)


def limits_of(case, n):
    d, m = case["det"], case["m"]
    if d in ("PELT", "SeededBinarySegmentation"):
        return dict(kind="change", minseg=m, lo=1, hi=n - 1, lengths="none", m=m, mx=0)
    if d == "MovingWindow":
        return dict(kind="change", minseg=1, lo=case["bw"], hi=n - case["bw"], lengths="none", m=1, mx=0)
    if d == "CAPA":
        return dict(kind="anomaly", lengths="capa", m=m, mx=m + case["mxoff"], minseg=0, lo=0, hi=0)
    if d == "MVCAPA":
        return dict(kind="subset", lengths="capa", m=m, mx=m + case["mxoff"], minseg=0, lo=0, hi=0)
    if d == "CircularBinarySegmentation":
        return dict(kind="anomaly", lengths="inside", m=m, mx=0, minseg=0, lo=0, hi=0)
    return dict(kind="anomaly", lengths="none", m=1, mx=0, minseg=0, lo=0, hi=0)


def run_point(case, seed=0):
    """-> (observed class, output record for C04 or None)."""
    import warnings

    warnings.filterwarnings("ignore")
    try:
        det = construct(case)
    except ValueError:
        return "ValueError@construct", None
    except Exception as e:
        return f"{type(e).__name__}@construct", None
    X = make_data(case["n"], case["p"], case["nan"], seed)
    try:
        det.fit(X)
    except ValueError:
        return "ValueError@fit", None
    except Exception as e:
        return f"{type(e).__name__}@fit", None
    try:
        y = det.predict(X)
    except ValueError:
        return "ValueError@predict", None
    except Exception as e:
        return f"{type(e).__name__}@predict", None
    lim = limits_of(case, len(X))
    try:
        sparse, ok = project_sparse(y, lim["kind"])
    except Exception as e:
        return f"malformed_output:{type(e).__name__}", None
    rec = {"rec": "output", "det": case["det"], "n": len(X), "p": case["p"], "sparse": sparse, "frame_ok": bool(ok), **lim}
    rec["searched"] = searched(case, det, len(X))
    return "OK", rec


def searched(case, det, n):
    """Config.SearchRangesNonEmpty observed on the code: how many candidates did the search of an OK grid point visit?
    The detector is run once more on strictly convex data (x_i = i^2 + column offset): every admissible split separates
    two windows with different means, so a split that was scored has a non-zero score, and one that was not keeps the 0
    the score array was initialised with.  -1: not applicable / not observable."""
    d = case["det"]
    if d not in ("MovingWindow", "SeededBinarySegmentation", "CircularBinarySegmentation"):
        return -1
    Z = pd.DataFrame({j: [float(i * i + 3 * j + (i % 3) * (i % 2)) for i in range(n)] for j in range(case["p"])})
    try:
        det.fit(Z).predict(Z)
        sc = det.scores
    except Exception:
        return -1   # e.g. a scorer that cannot score this data: the outcome classes above are judged on the grid data
    if d == "MovingWindow":
        return int(np.count_nonzero(np.asarray(sc, dtype=float)))
    return int(len(sc))


def judge(expected, observed):
    if expected == "ValueError@scorer":  # permitted, not required (e.g. no candidate needs a short segment)
        return observed in ("ValueError@fit", "ValueError@predict", "OK")
    return expected == observed


def _chunk(args):
    cases, seed = args
    return [run_point(c, seed) for c in cases]


def run(tier: str) -> int:
    chk = Check(PROP, tier)
    chk.rule = ("the grid TLC enumerates: 7 detectors x {scale below/at/above 0 or None; second scale for CAPA/MVCAPA, one at a "
                "time; min_segment_length 0..3; max_interval_length 2M-1, 2M, 2M+1, 2M+5; growth 1, 1.01, 1.5, 2, 2.01; level 0, "
                "0.1, 1; max_segment_length M-1, M, M+3; bandwidth 0..3; bounds lower <,=,> upper; scorer minimum size 1 or 2} x "
                "data length MinLen-1..MinLen+2, MinLen+25 x NaN x p in 1..3.  Non-trivial = a hyper-parameter or the data sit "
                "on or next to a documented bound (every grid point by construction); distinct grid points.")
    chk.assumptions = ["TLC/SANY and the Json module", "min_detection_interval is left at its default (docstring and constructor "
                       "disagree on its range)", "'ValueError@scorer' is a permitted, not a required outcome"]
    with Workdir(PROP) as wd:
        cs = dict(Bound="code", Emit=False, NSlices=1, Slice=0)
        stages.model_check(chk, "Config", cs, ["Total", "SearchRangesNonEmpty"], wd=wd, label="A:grid",
                           coverage=(tier == "thorough"), expect_actions=("Construct", "Fit", "Predict"))
        nsl = 16
        sl = [chk.seed % nsl, (chk.seed + 5) % nsl, (chk.seed + 11) % nsl] if tier == "quick" else None
        cases = stages.emit_cases(chk, "Config", dict(Bound="code"), wd=wd, label="B:grid", nslices=nsl, slices=sl)
        outputs = []
        nsearch = 0
        with ProcessPoolExecutor(max_workers=stages.NCPU) as ex:
            chunks = [cases[i::64] for i in range(64) if cases[i::64]]
            for chunk, ress in zip(chunks, ex.map(_chunk, [(c, chk.seed) for c in chunks])):
                for case, (observed, rec) in zip(chunk, ress):
                    key = sha(case)
                    chk.case({**case, "observed": observed}, nontrivial=True, key=key)
                    chk.traces += 1
                    if not judge(case["expect"], observed):
                        clause = "valid_configuration_does_not_run" if case["expect"] == "OK" else \
                            "invalid_configuration_not_rejected_with_ValueError"
                        chk.violation({"stage": "B", "case": case, "observed": observed}, clause,
                                      {"clause": clause, "det": case["det"], "expect": case["expect"], "observed": observed,
                                       **{k: case[k] for k in ("scale", "scale2", "m", "loff", "growth", "level", "mxoff", "bw", "lohi", "ms", "nan")}})
                    if rec is not None and case.get("search", 0) > 0 and rec["searched"] >= 0:
                        nsearch += 1
                        if rec["searched"] == 0:
                            clause = "valid_configuration_searches_no_candidate"
                            chk.violation({"stage": "B", "case": case, "observed": "OK, but no candidate position was scored"}, clause,
                                          {"clause": clause, "det": case["det"], "bw": case["bw"], "m": case["m"], "loff": case["loff"]})
                        elif case["det"] == "MovingWindow" and rec["searched"] != case["search"] and len(chk.drift) < 3:
                            chk.spec_drift(f"moving window scored {rec['searched']} positions where Config.SearchCount gives "
                                           f"{case['search']} (n={case['n']}, bandwidth={case['bw']})")
                    if rec is not None:
                        rec.pop("searched", None)
                        rec["id"] = "o-" + key
                        outputs.append(rec)
        # C04's predicate on every OK output
        verdicts = stages.validate_traces(chk, "Trace_Formats", outputs, wd=wd, label="C:outputs", batch=500)
        for rec in outputs:
            v = verdicts.get(rec["id"])
            if v and v != "ok":
                clause = v.split(":", 1)[1]
                chk.violation({"stage": "C", "output": rec, "verdict": v}, clause, {"clause": clause, "det": rec["det"]})
    chk.extra["ok_grid_points_with_observed_search_range"] = nsearch
    chk.exhaustive = tier == "thorough"
    return chk.finish()


def replay(body) -> int:
    rec = body["case"]
    if "case" in rec:
        print(run_point(rec["case"]))
    return 1
