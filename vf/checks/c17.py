"""C17 -- StatThresholdAnomaliser flags exactly the out-of-range segments.

Stage A  TLC: Anomaliser.tla (clone-and-fit, group rows by dense segment label, threshold the
         statistic) against AnomaliserDefs.tla (segments, exact rational statistics, Flagged) for
         every changepoint set, integer series, statistic and pair of bounds within the constants.
Stage B  every TLC case replayed through StatThresholdAnomaliser around a user-defined stub detector
         that returns the given changepoints, for array / Series / DataFrame input.
Stage C  PELT / MovingWindow / SeededBinarySegmentation inside: the anomaliser's output against the
         segmentation of a fresh clone of the same detector, validated by Trace_Anomaliser.tla.
"""

from __future__ import annotations

from concurrent.futures import ProcessPoolExecutor
from fractions import Fraction

import numpy as np
import pandas as pd

from .. import stages
from ..common import Check, sha
from ..project import project_sparse
from ..tlc import Workdir

PROP = "C17"
INVS = ["FlagsExactly", "Sorted", "WrappedUntouched"]
KINDS = {"sum", "mean", "min", "max", "median", "countpos"}


def consts(**kw):
    c = dict(N=4, VNeg=1, VPos=2, Kinds=KINDS, LoHi=2, Cmp="strict", Adjacent="separate", FitTarget="clone",
             Emit=False, NSlices=1, Slice=0, Rounds=1, CloneWhen="every_fit")
    c.update(kw)
    return c


# "2rounds": the wrapped detector object is reconfigured by the user after a first fit / predict and the anomaliser is
# fitted again (every pair of changepoint sets)
STAGE = {"quick": [("N4", consts(), 16, [0, 1]), ("N3", consts(N=3, LoHi=3), 1, None), ("N3-2rounds", consts(N=3, VPos=1, LoHi=1, Rounds=2, Kinds={"mean", "max", "sum"}), 1, None)],
         "thorough": [("N5", consts(N=5), 64, list(range(8))), ("N4", consts(), 8, None), ("N3-2rounds", consts(N=3, LoHi=1, Rounds=2), 4, [0]), ("N4-2rounds", consts(N=4, VPos=1, LoHi=1, Rounds=2, Kinds={"mean", "max"}), 16, [0]), ("N6-sum-median", consts(N=6, VPos=1, Kinds={"mean", "median"}, LoHi=1), 64, list(range(8)))]}


def countpos(v):
    return float((np.asarray(v) > 0).sum())


STATS = {"sum": np.sum, "mean": np.mean, "min": np.min, "max": np.max, "median": np.median, "countpos": countpos}


def stub(cps):
    from skchange.change_detectors.base import ChangeDetector

    class StubChangeDetector(ChangeDetector):
        _tags = {"fit_is_empty": False, "capability:multivariate": True}

        def __init__(self, cps=()):
            self.cps = cps
            super().__init__()

        def _fit(self, X, y=None):
            self.fitted_on_ = len(X)
            return self

        def _predict(self, X):
            return ChangeDetector._format_sparse_output(list(self.cps))

    return StubChangeDetector(cps=tuple(cps))


def replay_case(case):
    import warnings

    warnings.filterwarnings("ignore")
    from skchange.anomaly_detectors import StatThresholdAnomaliser

    n, x, cps = case["n"], np.asarray(case["x"], dtype=float), case["cps"]
    want = [list(r) for r in case["rows"]]
    two = case.get("rounds", 1) == 2
    want1 = [list(r) for r in case["rows1"]] if two else want
    fails = []
    for rep, X in (("ndarray1d", x.copy()), ("ndarray2d", x.reshape(-1, 1).copy()), ("Series", pd.Series(x.copy(), index=pd.RangeIndex(0, 3 * n, 3))),
                   ("ndarray1d-int64", x.astype(np.int64)),
                   ("DataFrame-repeated-dates", pd.DataFrame({"v": x.copy()}, index=pd.DatetimeIndex(
                       [pd.Timestamp("2021-03-01") + pd.Timedelta(days=i // 2) for i in range(n)]))),
                   ("DataFrame", pd.DataFrame({"v": x.copy()}, index=pd.RangeIndex(7, 7 + n)))):
        inner = stub(cps)
        params_before = repr(inner.get_params())
        try:
            det = StatThresholdAnomaliser(inner, stat=STATS[case["kind"]], stat_lower=float(case["lo"]), stat_upper=float(case["hi"]))
            det.fit(X)
            rows, ok = project_sparse(det.predict(X), "anomaly")
            if two:
                if rows != want1 or not ok:
                    fails.append(("flags_other_segments", {"input": rep, "round": 1, "got": rows, "expected": want1, "frame_ok": ok}))
                # the user reconfigures THEIR detector object and fits the anomaliser again
                inner.set_params(cps=tuple(case["cps2"]))
                params_before = repr(inner.get_params())
                det.fit(X)
                rows, ok = project_sparse(det.predict(X), "anomaly")
        except Exception as e:
            fails.append(("raises", {"input": rep, "error": repr(e)[:200]}))
            continue
        if rows != want or not ok:
            fails.append(("flags_other_segments", {"input": rep, "round": 2 if two else 1, "got": rows, "expected": want, "frame_ok": ok}))
        if inner.is_fitted or hasattr(inner, "fitted_on_") or repr(inner.get_params()) != params_before:
            fails.append(("wrapped_detector_fitted_or_altered", {"input": rep}))
    adjacent = any(want[i][1] == want[i + 1][0] for i in range(len(want) - 1))
    return fails, adjacent or len(want) > 0


def _replay_chunk(cases):
    return [replay_case(c) for c in cases]


def record(args):
    import warnings

    warnings.filterwarnings("ignore")
    from skchange.anomaly_detectors import StatThresholdAnomaliser
    from skchange.change_detectors import PELT, MovingWindow, SeededBinarySegmentation

    seed, count = args
    rng = np.random.default_rng(seed)
    out = []
    for i in range(count):
        n = int(rng.integers(6, 30))
        x = rng.integers(-1, 2, size=n).astype(float)
        for _ in range(int(rng.integers(1, 4))):
            k = int(rng.integers(1, n))
            x[k:] += int(rng.integers(-4, 5))
        which = int(rng.integers(0, 3))
        inner = [PELT(min_segment_length=int(rng.integers(1, 3)), penalty_scale=float(rng.choice([0.1, 0.5, 1.0]))),
                 MovingWindow(bandwidth=int(rng.integers(1, 4)), threshold_scale=float(rng.choice([0.3, 1.0]))),
                 SeededBinarySegmentation(min_segment_length=int(rng.integers(1, 3)), max_interval_length=int(rng.integers(4, 12)),
                                          threshold_scale=float(rng.choice([0.3, 1.0])))][which]
        kind = str(rng.choice(sorted(KINDS)))
        d = int(rng.choice([1, 2, 3]))
        ln = int(rng.integers(-4, 3))
        hn = int(rng.integers(ln, ln + 6))
        X = [x.copy(), pd.Series(x.copy()), pd.DataFrame({"a": x.copy()}, index=pd.date_range("2020-01-01", periods=n)),
             pd.DataFrame({"a": x.copy()}, index=pd.PeriodIndex([pd.Period("2021-03", freq="M") + j // 3 for j in range(n)]))][int(rng.integers(0, 4))]
        rid = f"a-{seed}-{i}"
        try:
            before = repr(inner.get_params())
            det = StatThresholdAnomaliser(inner, stat=STATS[kind], stat_lower=ln / d, stat_upper=hn / d).fit(X)
            rows, ok = project_sparse(det.predict(X), "anomaly")
            untouched = (not inner.is_fitted) and repr(inner.get_params()) == before and ok
            cps, _ = project_sparse(inner.clone().fit(X).predict(X), "change")
        except Exception as e:
            out.append({"id": rid, "error": repr(e)[:200], "inner": type(inner).__name__, "x": x.tolist()})
            continue
        out.append({"id": rid, "n": n, "x": [int(v) for v in x], "cps": cps, "kind": kind, "ln": ln, "hn": hn, "d": d,
                    "rows": rows, "wrapped_untouched": bool(untouched), "inner": type(inner).__name__})
    return out


def run(tier: str) -> int:
    chk = Check(PROP, tier)
    chk.rule = ("stage A/B: every integer series (values -1..2) x every changepoint set x 6 statistics (sum, mean, min, max, "
                "median, a user count statistic) x all integer bounds lo <= hi within the constants, replayed around a "
                "stub detector for 6 input representations (arrays, int64, Series on a stepped index, frames on an offset index and on repeated dates); stage C: PELT / MovingWindow / SeededBinarySegmentation inside. "
                "Non-trivial = at least one flagged segment (B) / reported anomaly or changepoint (C); distinct by hash.")
    chk.assumptions = ["TLC/SANY and the Json module", "integer data so that mean/median comparisons with the bounds are exact"]
    with Workdir(PROP) as wd:
        cases = []
        for label, cs, nsl, slices in STAGE[tier]:
            stages.model_check(chk, "Anomaliser", cs, INVS, wd=wd, label="A:" + label, coverage=(tier == "thorough"),
                               expect_actions=("Fit", "Predict"))
            if slices is not None:
                slices = sorted({(s + chk.seed) % nsl for s in slices})
            cases += stages.emit_cases(chk, "Anomaliser", cs, wd=wd, label="B:" + label, nslices=nsl, slices=slices)
        uniq = {}
        for c in cases:
            uniq.setdefault(sha(c), c)
        items = list(uniq.items())
        with ProcessPoolExecutor(max_workers=stages.NCPU) as ex:
            chunks = [items[i::64] for i in range(64) if items[i::64]]
            for chunk, ress in zip(chunks, ex.map(_replay_chunk, [[c for _, c in ch] for ch in chunks])):
                for (key, case), (fails, nontrivial) in zip(chunk, ress):
                    chk.case({"stage": "B", **case}, nontrivial=nontrivial, key=key)
                    chk.traces += 1
                    for clause, obs in fails:
                        chk.violation({"stage": "B", "case": case, "observed": obs}, clause,
                                      {"clause": clause, "kind": case["kind"], "input": obs.get("input"), "input_sha": key})
        count = 40 if tier == "quick" else 600
        with ProcessPoolExecutor(max_workers=stages.NCPU) as ex:
            traces = [t for part in ex.map(record, [(chk.seed + k, count) for k in range(16)]) for t in part]
        for t in [t for t in traces if "error" in t]:
            chk.case(t)
            chk.violation({"stage": "C", "trace": t}, "raises", {"clause": "raises", "inner": t["inner"]})
        traces = [t for t in traces if "error" not in t]
        slim = [{k: v for k, v in t.items() if k != "inner"} for t in traces]
        verdicts = stages.validate_traces(chk, "Trace_Anomaliser", slim, wd=wd, label="C:anom", batch=300)
        for t in traces:
            v = verdicts.get(t["id"])
            chk.case(t, nontrivial=bool(t["rows"] or t["cps"]), key=t["id"])
            if v and v != "ok":
                clause = v.split(":", 1)[1]
                chk.violation({"stage": "C", "trace": t, "verdict": v}, clause, {"clause": clause, "inner": t["inner"], "kind": t["kind"]})
    return chk.finish()


def replay(body) -> int:
    rec = body["case"]
    if rec.get("stage") == "B":
        fails, _ = replay_case(rec["case"])
        print(fails)
        return 1 if fails else 0
    print(rec)
    return 1
