"""C08 -- moving window: symmetric two-sided scores and peak-of-run detections.

Stage A  TLC: MovingWindow.tla (window construction, where() scan automaton, arg-max per run)
         against the set-theoretic runs/peaks definition; Reversal.
Stage B  every TLC case replayed through moving_window_transform / get_moving_window_changepoints and
         the MovingWindow class with a table change score keyed by the EXACT cut (t-b, t, t+b); also
         on the reversed table.
Stage C  built-in scores on lattice data (and on the reversed data): per-cut values recorded from an
         independent scorer, validated by Trace_MovingWindow.tla.
"""

from __future__ import annotations

import math
from concurrent.futures import ProcessPoolExecutor

import numpy as np
import pandas as pd

from .. import stages
from ..common import Check, sha, touch_same_index
from ..tlc import Workdir

PROP = "C08"
INVS = ["ScoreIsDefinition", "WhereIsMaximalRuns", "WhereScan", "PeakOfRun", "Reversal"]


def consts(**kw):
    # Thr2 = 2 * threshold: odd values never tie with a score, even values do ("exceeds" is strict), 0 is the smallest
    c = dict(N=8, B=2, V=2, Thr2s={0, 1, 2, 3}, Mdis={1, 2}, LeftWindow="full", Exceed="strict", Emit=False, NSlices=1, Slice=0)
    c.update(kw)
    return c


STAGE_A = {
    "quick": [("N8-B2", consts()), ("N6-B1", consts(N=6, B=1, V=2, Mdis={1, 2, 3})), ("N7-B2-lemma", consts(N=7, B=2, V=2)),
              ("N9-B3", consts(N=9, B=3, V=3, Thr2s={1, 2, 4, 5}))],
    "thorough": [("N9-B2", consts(N=9, B=2, V=2, Mdis={1, 2, 3})), ("N7-B1", consts(N=7, B=1, V=2, Mdis={1, 2, 3})),
                 ("N10-B3", consts(N=10, B=3, V=3, Thr2s={1, 2, 4, 5})), ("N8-B4", consts(N=8, B=4, V=3, Thr2s={0, 1, 4, 5})),
                 ("N9-B1-V1", consts(N=9, B=1, V=1, Thr2s={0, 1, 2}, Mdis={1, 2, 4}))],
}


def table_of(case, rev=False):
    n, b = case["n"], case["b"]
    sv = case["sv"]  # sv[t-1] for t in 1..n-1
    tab = {}
    for t in range(b, n - b + 1):
        v = sv[(n - t) - 1] if rev else sv[t - 1]
        tab[(t - b, t, t + b)] = v
    return tab


def _functions(case, tab, admitted, want, n, b, thr, mdi):
    from skchange.change_detectors.moving_window import get_moving_window_changepoints, moving_window_transform

    from ..doubles import TableChangeScore

    fails = []
    sc = moving_window_transform(np.zeros((n, 1)), TableChangeScore({k: [float(v)] for k, v in tab.items()}, p=1), b)
    obs = {"entry": "functions", "scores": [float(x) for x in sc]}
    if [float(x) for x in sc] != want:
        fails.append(("score_is_not_the_two_sided_window_score", obs))
    else:
        cps = tuple(int(c) for c in get_moving_window_changepoints(np.asarray(sc), thr, mdi))
        obs["cps"] = list(cps)
        if cps not in admitted:
            fails.append(("not_peak_of_each_run", obs))
        # time reversal
        rsc = moving_window_transform(np.zeros((n, 1)), TableChangeScore({k: [float(v)] for k, v in table_of(case, True).items()}, p=1), b)
        if any(rsc[t] != sc[n - t] for t in range(1, n)) or rsc[0] != 0:
            fails.append(("reversal_scores", {"entry": "functions", "scores": [float(x) for x in sc], "reversed": [float(x) for x in rsc]}))
        elif len(admitted) == 1:
            rcps = tuple(int(c) for c in get_moving_window_changepoints(np.asarray(rsc), thr, mdi))
            if tuple(sorted(n - c for c in rcps)) != cps:
                fails.append(("reversal_changepoints", {"entry": "functions", "cps": list(cps), "reversed_cps": list(rcps)}))
    return fails


def replay_case(case):
    from skchange.change_detectors.moving_window import (MovingWindow, get_moving_window_changepoints,
                                                         moving_window_transform)

    from ..doubles import TableChangeScore, split_columns

    n, b, thr, mdi = case["n"], case["b"], case["thr2"] / 2.0, case["mdi"]
    admitted = {tuple(a) for a in case["admitted"]}
    want = [float(x) for x in case["scores"]]
    fails = []
    tab = table_of(case)
    # (a) module-level functions, exact threshold
    try:
        fails += _functions(case, tab, admitted, want, n, b, thr, mdi)
    except Exception as e:  # valid configuration on valid input
        fails.append(("raises", {"entry": "functions", "error": repr(e)[:200]}))
    # (b) the class: two columns, threshold through threshold_scale
    p = 2
    default = MovingWindow.get_default_threshold(n, p, b, 0.01)
    if 1 <= mdi <= max(1, b / 2 - 1) and math.isfinite(default) and default > 0:
        rng = np.random.default_rng(n * 1000 + b * 100 + int(case["thr2"]))
        tab2 = {k: split_columns(int(v), p, rng) for k, v in tab.items()}
        det = MovingWindow(change_score=TableChangeScore(tab2, p=p, int_out=bool((n + b) % 2)), bandwidth=b, threshold_scale=thr / default,
                           min_detection_interval=mdi)
        X = np.zeros((n, p))
        try:
            det.fit(X)
            ts = det.transform_scores(X).to_numpy().ravel()
            cps2 = tuple(int(c) for c in det.predict(X)["ilocs"].to_numpy())
            obs2 = {"entry": "MovingWindow", "scores": [float(x) for x in ts], "cps": list(cps2), "threshold_": float(det.threshold_)}
            if abs(det.threshold_ - thr) > 1e-9:
                fails.append(("threshold_value", obs2))
            elif [float(x) for x in ts] != want:
                fails.append(("score_is_not_the_two_sided_window_score", obs2))
            elif float(det.threshold_) != thr and any(w == thr for w in want):
                pass  # threshold_scale * default missed thr by an ulp AND a score ties with thr: the tie is not reproduced
            elif cps2 not in admitted:
                fails.append(("not_peak_of_each_run", obs2))
        except Exception as e:
            fails.append(("raises", {"entry": "MovingWindow", "error": repr(e)[:200]}))
    nontrivial = len(case["runs"]) > 0
    return fails, nontrivial


def _replay_chunk(cases):
    import warnings

    warnings.filterwarnings("ignore")
    return [replay_case(c) for c in cases]


def record(args):
    import warnings

    warnings.filterwarnings("ignore")
    from skchange.change_detectors import MovingWindow
    from skchange.change_scores import CUSUM, ChangeScore
    from skchange.costs import GaussianCovCost, GaussianVarCost, L2Cost

    from ..zoo import lattice_data

    seed, count = args
    rng = np.random.default_rng(seed)
    out = []
    for i in range(count):
        which = int(rng.integers(0, 4))
        p = int(rng.integers(1, 4))
        if which == 0:
            mk, ms, name = (lambda: CUSUM()), 1, "CUSUM"
        elif which == 1:
            mk, ms, name = (lambda: ChangeScore(L2Cost())), 1, "ChangeScore(L2Cost)"
        elif which == 2:
            mk, ms, name = (lambda: ChangeScore(GaussianVarCost())), 2, "ChangeScore(GaussianVarCost)"
        else:
            mk, ms, name = (lambda: ChangeScore(GaussianCovCost())), p + 1, "ChangeScore(GaussianCovCost)"
        b = int(rng.integers(ms, ms + 6))
        n = int(rng.integers(2 * b, 2 * b + 25))
        mdi = int(rng.integers(1, max(1, int(b / 2 - 1)) + 1))
        X = lattice_data(rng, n, p, kind=int(rng.choice([1, 1, 2, 3, 4, 6])))
        if which >= 2:
            X = X + rng.integers(-2, 3, size=(n, p)) / 8.0  # avoid zero-variance windows dominating
        tuned = bool(rng.integers(0, 3) == 0)
        level = float(rng.choice([0.05, 0.2, 0.25, 0.5]))
        if tuned and rng.integers(0, 2):
            # (n-1)*(1-level) integral: the tuned threshold IS one of the training scores, so predicting on the
            # training data has a score exactly equal to the threshold -- which does not exceed it
            cand = [m for m in range(2 * b, 2 * b + 25) if (m - 1) % round(1 / level) == 0]
            if cand:
                n = int(rng.choice(cand))
                X = lattice_data(rng, n, p, kind=int(rng.choice([1, 2, 3, 4, 6])))
                if which >= 2:
                    X = X + rng.integers(-2, 3, size=(n, p)) / 8.0
        rid = f"mw-{seed}-{i}"
        # integer-valued data are passed to the detector as int64 half of the time (the reference values below are
        # always computed from the float copy): the scores must not depend on the dtype of the container
        Xin = X.astype(np.int64) if np.all(X == np.round(X)) and rng.integers(0, 2) else X
        try:
            det = MovingWindow(change_score=mk(), bandwidth=b, threshold_scale=None if tuned else float(rng.choice([0.0, 0.3, 1.0, 2.0])),
                               level=level, min_detection_interval=mdi)
            if rng.integers(0, 2):
                # the same detector object has already been used on OTHER data: what it reports for X must not depend on it
                X0 = lattice_data(np.random.default_rng(seed * 1000 + i), n + 3, p, kind=2) + rng.integers(-2, 3, size=(n + 3, p)) / 8.0
                try:
                    det.fit(X0).predict(X0)
                except RuntimeError:
                    pass
            if rng.integers(0, 2):
                Xin = pd.DataFrame(Xin)   # the same numbers in a frame (default index)
            det.fit(Xin)
            if rng.integers(0, 2):
                touch_same_index(det, Xin)
            sc = det.transform_scores(Xin).to_numpy().ravel()
            cps = [int(c) for c in det.predict(Xin)["ilocs"].to_numpy()]
            rsc = MovingWindow(change_score=mk(), bandwidth=b, threshold_scale=1.0).fit(X[::-1].copy()) \
                .transform_scores(X[::-1].copy()).to_numpy().ravel()
            ref = mk().fit(X)
            vals = np.zeros(n)
            for t in range(b, n - b + 1):
                vals[t] = float(np.sum(ref.evaluate(np.array([[t - b, t, t + b]]))))
        except RuntimeError:
            continue  # documented non-PD covariance
        except Exception as e:
            out.append({"id": rid, "error": repr(e)[:200], "score": name, "n": n, "b": b, "X": X.tolist()})
            continue
        allv = list(sc) + list(vals) + list(rsc) + [det.threshold_]
        if not all(math.isfinite(v) for v in allv):
            continue
        mag = max(1.0, max(abs(v) for v in allv))
        unit = mag / 2 ** 28
        q = lambda v: int(round(v / unit))
        # exceedance and the peak of a run are decided by the detector on ITS OWN scores and threshold_, both public and
        # exact: dense ranks preserve every comparison (including equality) without any tolerance
        order = {v: k for k, v in enumerate(sorted(set([float(v) for v in sc] + [float(det.threshold_)])))}
        out.append({"id": rid, "rec": "run", "score": name, "n": n, "p": p, "b": b, "mdi": mdi, "tuned": tuned,
                    "rk": [order[float(v)] for v in sc], "rkthr": order[float(det.threshold_)],
                    "tie": bool(any(float(v) == float(det.threshold_) for v in sc[b:n - b + 1])),
                    "thr": q(det.threshold_), "tol": 64, "unit": unit, "vals": [q(v) for v in vals],
                    "scores": [q(v) for v in sc], "cps": cps, "X": X.tolist()})
        if which == 3:
            # covariance-based scores: the reversal relation is judged on well-conditioned windows only (a nearly singular
            # sample covariance makes the log-determinant rounding-dominated; exact singularity is C01's special case)
            def cond_ok(a_, b_):
                ev = np.linalg.eigvalsh(np.cov(X[a_:b_], rowvar=False, ddof=0).reshape(p, p))
                return ev[0] > 1e-6 * max(ev[-1], 1e-12)

            if not all(cond_ok(t - b, t) and cond_ok(t, t + b) and cond_ok(t - b, t + b) for t in range(b, n - b + 1)):
                continue
        out.append({"id": rid + "r", "rec": "reversal", "score": name, "n": n, "b": b, "tol": 64, "unit": unit,
                    "a": [q(v) for v in sc], "r": [q(v) for v in rsc]})
    return out


def run(tier: str) -> int:
    chk = Check(PROP, tier)
    chk.rule = ("stage A/B: every score table over the window cuts (values 0..V) x thresholds in steps of 1/2 (ties included) x "
                "min_detection_interval within the constants; each case replayed (functions, class with two "
                "columns, reversed table).  stage C: CUSUM and cost-based scores on lattice data incl. the reversed "
                "series.  Non-trivial = at least one run of exceedances; distinct by hash of (n, b, table, thr, mdi).")
    chk.assumptions = ["TLC/SANY and the Json module", "R3: deviations of score VALUES below tol*unit are rounding; runs and peaks "
                       "are judged exactly, on dense ranks of the detector's own scores and threshold_"]
    with Workdir(PROP) as wd:
        cases = []
        for label, cs in STAGE_A[tier]:
            stages.model_check(chk, "MovingWindow", cs, INVS + (["AdmittedSetsIsDefinition"] if "lemma" in label or cs["N"] <= 7 else []),
                               wd=wd, label="A:" + label,
                               coverage=(tier == "thorough"), expect_actions=("Transform", "Where", "Peaks"))
            cases += stages.emit_cases(chk, "MovingWindow", cs, wd=wd, label="B:" + label, nslices=8)
        uniq = {}
        for c in cases:
            uniq.setdefault(sha([c[k] for k in ("n", "b", "thr2", "mdi", "sv")]), c)
        items = list(uniq.items())
        with ProcessPoolExecutor(max_workers=stages.NCPU) as ex:
            chunks = [items[i::64] for i in range(64) if items[i::64]]
            for chunk, ress in zip(chunks, ex.map(_replay_chunk, [[c for _, c in ch] for ch in chunks])):
                for (key, case), (fails, nontrivial) in zip(chunk, ress):
                    chk.case({"stage": "B", **{k: case[k] for k in ("n", "b", "thr2", "mdi", "sv", "scores", "admitted")}},
                             nontrivial=nontrivial, key=key)
                    chk.traces += 1
                    for clause, obs in fails:
                        chk.violation({"stage": "B", "case": case, "observed": obs}, clause,
                                      {"detector": "MovingWindow", "clause": clause, "input_sha": key})
        count = 25 if tier == "quick" else 400
        with ProcessPoolExecutor(max_workers=stages.NCPU) as ex:
            traces = [t for part in ex.map(record, [(chk.seed + k, count) for k in range(16)]) for t in part]
        for t in [t for t in traces if "error" in t]:
            chk.case(t)
            chk.violation({"stage": "C", "trace": t}, "raises", {"detector": "MovingWindow", "clause": "raises", "score": t["score"]})
        traces = [t for t in traces if "error" not in t]
        slim = [{k: v for k, v in t.items() if k not in ("X", "score", "unit", "tuned", "p")} for t in traces]
        verdicts = stages.validate_traces(chk, "Trace_MovingWindow", slim, wd=wd, label="C:mw", batch=200)
        for t in traces:
            v = verdicts.get(t["id"])
            chk.case({k: t[k] for k in t if k != "X"}, nontrivial=bool(t.get("cps")), key=t["id"])
            if v and v.startswith("skip:"):
                chk.extra["skipped_traces"] = chk.extra.get("skipped_traces", 0) + 1
            elif v and v != "ok":
                clause = v.split(":", 1)[1]
                chk.violation({"stage": "C", "trace": t, "verdict": v}, clause,
                              {"detector": "MovingWindow", "clause": clause, "score": t["score"]})
    return chk.finish()


def replay(body) -> int:
    rec = body["case"]
    if rec.get("stage") == "B":
        fails, _ = replay_case(rec["case"])
        for f in fails:
            print("still failing:", f)
        return 1 if fails else 0
    print(rec)
    return 1
