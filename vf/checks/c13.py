"""C13 -- evaluate either rejects a cuts array or scores exactly the cuts it describes.

Stage A  TLC: Cuts.tla, Check;Kernel with Python indexing semantics, every tuple in the box.
Stage B  TLC emits, per (n, kind, min_size), the set of admitted cuts in [-margin, n+margin]^k; the
         harness feeds EVERY tuple of the box (and the malformed shapes) to every scorer class:
         ValueError iff the spec rejects; an accepted cut must be scored as the same rows are
         scored by a fresh scorer fitted on exactly those rows (so a wrapped or truncated read
         shows as a wrong value).  Exhaustive.
"""

from __future__ import annotations

import itertools
from concurrent.futures import ProcessPoolExecutor

import numpy as np

from .. import scorersizes, stages
from ..common import Check
from ..tlc import Workdir

PROP = "C13"
INVS = ["NoSilentWrap", "OnlyValueError", "RejectIffInvalid"]
P = 2  # columns of the data => GaussianCovCost.min_size = 3


def scorers():
    from skchange.anomaly_scores import L2Saving, LocalAnomalyScore, Saving
    from skchange.change_scores import CUSUM, ChangeScore
    from skchange.costs import GaussianCovCost, GaussianVarCost, L2Cost

    cov = np.array([[2.0, 1.0], [1.0, 2.0]])
    return [
        ("L2Cost()", lambda: L2Cost(), 2, 1),
        ("L2Cost(0.5)", lambda: L2Cost(param=0.5), 2, 1),
        ("GaussianVarCost()", lambda: GaussianVarCost(), 2, 2),
        ("GaussianVarCost((0,1))", lambda: GaussianVarCost(param=(0.0, 1.0)), 2, 2),
        ("GaussianCovCost()", lambda: GaussianCovCost(), 2, P + 1),
        ("GaussianCovCost((0,cov))", lambda: GaussianCovCost(param=(np.zeros(2), cov)), 2, P + 1),
        ("L2Saving()", lambda: L2Saving(), 2, 1),
        ("Saving(L2Cost(0))", lambda: Saving(L2Cost(param=0.0)), 2, 1),
        ("Saving(GaussianVarCost((0,1)))", lambda: Saving(GaussianVarCost(param=(0.0, 1.0))), 2, 2),
        ("Saving(GaussianCovCost((0,cov)))", lambda: Saving(GaussianCovCost(param=(np.zeros(2), cov))), 2, P + 1),
        ("CUSUM()", lambda: CUSUM(), 3, 1),
        ("ChangeScore(L2Cost())", lambda: ChangeScore(L2Cost()), 3, 1),
        ("ChangeScore(GaussianVarCost())", lambda: ChangeScore(GaussianVarCost()), 3, 2),
        ("ChangeScore(GaussianCovCost())", lambda: ChangeScore(GaussianCovCost()), 3, P + 1),
        ("LocalAnomalyScore(L2Cost())", lambda: LocalAnomalyScore(L2Cost()), 4, 1),
        ("LocalAnomalyScore(GaussianVarCost())", lambda: LocalAnomalyScore(GaussianVarCost()), 4, 2),
        ("LocalAnomalyScore(GaussianCovCost())", lambda: LocalAnomalyScore(GaussianCovCost()), 4, P + 1),
    ]


def data(n, seed):
    rng = np.random.default_rng(seed * 1000 + n)
    while True:
        X = rng.integers(-3, 4, size=(n, P)).astype(float) + rng.integers(0, 4, size=(n, P)) / 4.0
        # general position: every 3 consecutive rows have a non-singular covariance
        if all(np.linalg.matrix_rank(np.cov(X[i:i + 3], rowvar=False)) == P for i in range(n - 2)):
            return X


def _outcome(sc, arr, expect):
    try:
        return "value", sc.evaluate(arr)
    except ValueError:
        return "ValueError", None
    except RuntimeError:  # documented: non-PD sample covariance (C01); not a cut problem
        return ("value" if expect else "RuntimeError"), None
    except Exception as e:
        return type(e).__name__, None


def run_box(args):
    """All tuples of the box for one (scorer index, n): alone, next to admissible rows, and as an
    unsigned array.  Returns (evaluations, accepted, failures)."""
    import warnings

    warnings.filterwarnings("ignore")
    si, n, margin, accepted, filler, seed = args
    name, mk, kind, ms = scorers()[si]
    X = data(n, seed)
    sc = mk()
    if (si + n + seed) % 2 == 0:
        # the scorer OBJECT has been fitted and used on data of another width before (1 and 4 columns): which cuts it
        # accepts afterwards is a matter of the LAST fit only (seeded change C13-e: min_size remembered across fits)
        wr = np.random.default_rng(seed + 31 * si)
        for pw in (1, 4):
            W = wr.normal(size=(16, pw)) + np.arange(16)[:, None] * (0.1 * (np.arange(pw) + 1))
            try:
                sc.fit(W)
                sc.evaluate(np.array([{2: [0, 16], 3: [0, 8, 16], 4: [0, 3, 10, 16]}[kind]]))
            except Exception:
                pass   # e.g. a fixed 2 x 2 covariance does not fit 1 or 4 columns: not judged here
    sc.fit(X)
    acc = {tuple(c) for c in accepted}
    fails = []
    n_eval = 0
    for cut in itertools.product(range(-margin, n + margin + 1), repeat=kind):
        expect = cut in acc
        variants = [("only", np.array([cut]), 0)]
        if filler:
            variants += [("first", np.array([cut, filler]), 0), ("last", np.array([filler, cut]), 1),
                         ("middle", np.array([filler, cut, filler]), 1)]
        if min(cut) >= 0:
            variants.append(("only-uint64", np.array([cut], dtype=np.uint64), 0))
            variants.append(("only-int32", np.array([cut], dtype=np.int32), 0))
        alone = None
        for pos, arr, row in variants:
            n_eval += 1
            outcome, val = _outcome(sc, arr, expect)
            obs = {"scorer": name, "n": n, "cut": list(cut), "pos": pos, "outcome": outcome}
            if expect and outcome != "value":
                fails.append(("valid_cut_rejected", obs))
                continue
            if not expect and outcome != "ValueError":
                obs["value"] = None if val is None else val.tolist()
                fails.append(("invalid_cut_not_rejected", obs))
                continue
            if expect and val is not None:
                if pos == "only":
                    alone = val
                    # the same rows, scored by a fresh scorer that has seen nothing else
                    s, e = cut[0], cut[-1]
                    try:
                        ref = mk().fit(X[s:e].copy()).evaluate(np.array([[c - s for c in cut]]))
                    except RuntimeError:
                        continue
                    if val.shape != ref.shape or not np.all(np.isfinite(val)) or \
                            not np.allclose(val, ref, rtol=1e-9, atol=1e-9):
                        fails.append(("accepted_cut_scored_wrongly", {**obs, "value": val.tolist(), "rows_value": ref.tolist()}))
                elif alone is not None and not np.allclose(val[row], alone[0], rtol=1e-9, atol=1e-9):
                    fails.append(("row_value_depends_on_batch", {**obs, "value": val[row].tolist(), "alone": alone[0].tolist()}))
    return n_eval, len(acc), fails


def malformed(seed):
    """float dtype, wrong width, 3-D, ragged: all must raise ValueError, for every scorer."""
    fails = []
    n_eval = 0
    X = data(5, seed)
    for name, mk, kind, ms in scorers():
        sc = mk().fit(X)
        good = [0, 5] if kind == 2 else [0, 2, 5] if kind == 3 else [0, 1, 3, 5]
        if kind >= 3 and ms == 3:
            good = None  # n = 5 admits no such cut
        cases = {
            "float": np.array([[float(c) for c in (good or [0, 1, 2][:kind])]]),
            "narrow": np.array([list(range(kind - 1))]),
            "wide": np.array([list(range(kind + 1))]),
            "3d": np.zeros((1, 1, kind), dtype=int),
            "empty_list": [],
        }
        for label, arr in cases.items():
            n_eval += 1
            try:
                sc.evaluate(arr)
                fails.append(("malformed_not_rejected", {"scorer": name, "shape": label}))
            except ValueError:
                pass
            except Exception as e:
                fails.append(("malformed_wrong_error", {"scorer": name, "shape": label, "error": type(e).__name__}))
        if good is not None:
            n_eval += 1
            try:  # a 1-D vector is a single cut, and lists of ints are fine
                v1 = sc.evaluate(np.array(good))
                v2 = sc.evaluate([good])
                if not np.allclose(v1, v2):
                    fails.append(("vector_cut_differs", {"scorer": name}))
            except RuntimeError:
                pass
            except Exception as e:
                fails.append(("valid_cut_rejected", {"scorer": name, "cut": good, "outcome": type(e).__name__}))
    return n_eval, fails


def run(tier: str) -> int:
    chk = Check(PROP, tier)
    nmax, margin = (5, 2) if tier == "quick" else (6, 3)
    chk.rule = (f"exhaustive: every integer tuple in [-{margin}, n+{margin}]^k, k in {{2,3,4}}, n in 3..{nmax}, "
                "for 17 scorer classes/compositions (min_size 1, 2, p+1), plus malformed shapes; a case is "
                "one evaluate call; non-trivial/distinct = the distinct (scorer, n, tuple) triples, each a separate "
                "accept/reject decision judged against the spec (admitted tuples, whose value is also compared with the "
                "same rows scored in isolation, are counted in `admitted_tuples`).")
    chk.assumptions = ["TLC/SANY and the Json module",
                       "data in general position so that the non-PD error (C01) does not interfere"]
    with Workdir(PROP) as wd:
        scorersizes.stage(chk, tier, wd)   # growth: min_size / get_param_size follow the LAST fit (ScorerSizes.tla)
        stages.model_check(chk, "Cuts", dict(NMax=nmax, Margin=margin, CheckMode="bounds", DiffMode="exact", Emit=False), INVS,
                           wd=wd, label="A:box", coverage=(tier == "thorough"), expect_actions=("Check", "Kernel"))
        cases = stages.emit_cases(chk, "Cuts", dict(NMax=nmax, Margin=margin, CheckMode="bounds", DiffMode="exact"), wd=wd,
                                  label="B:accepted-sets", invariants=("EmitAll",))
        cases = [c for c in cases]
        by_key = {(c["n"], c["kind"], c["ms"]): (c["accepted"], c["filler"]) for c in cases}
        jobs = []
        for si, (name, mk, kind, ms) in enumerate(scorers()):
            for n in range(3, nmax + 1):
                if (n, kind, ms) not in by_key:
                    chk.machinery(f"no admitted set for n={n} kind={kind} ms={ms}")
                    continue
                jobs.append((si, n, margin, by_key[(n, kind, ms)][0], list(by_key[(n, kind, ms)][1]), chk.seed))
        with ProcessPoolExecutor(max_workers=stages.NCPU) as ex:
            for job, (n_eval, n_acc, fails) in zip(jobs, ex.map(run_box, jobs)):
                chk.evaluations += n_eval
                chk.traces += n_eval
                name = scorers()[job[0]][0]
                kind_ = scorers()[job[0]][2]
                for k in range((job[1] + 2 * margin + 1) ** kind_):   # one judged accept/reject decision per tuple of the box
                    chk.nontrivial.add((name, job[1], k))
                chk.extra["admitted_tuples"] = chk.extra.get("admitted_tuples", 0) + n_acc
                if len(chk.samples) < 4:
                    chk.sample({"scorer": name, "n": job[1], "box": f"[-{margin},{job[1] + margin}]^{scorers()[job[0]][2]}",
                                "tuples": n_eval, "admitted": n_acc, "first_admitted": job[3][:3]})
                for clause, obs in fails:
                    chk.violation({"stage": "B", "observed": obs, "seed": chk.seed, "margin": margin}, clause,
                                  {"scorer": obs["scorer"], "clause": clause, "cut": obs.get("cut"), "pos": obs.get("pos")})
        n_eval, fails = malformed(chk.seed)
        chk.evaluations += n_eval
        for clause, obs in fails:
            chk.violation({"stage": "B", "observed": obs}, clause, {"scorer": obs["scorer"], "clause": clause})
        if tier == "thorough":  # unbounded complement (Apalache); reported, no verdict depends on it
            from .. import lemmas

            res = lemmas.run(wd)
            chk.extra["unbounded_lemmas"] = res
            for name, outcome in res.items():
                if not outcome.startswith("not_run") and outcome != lemmas.LEMMAS[name]:
                    chk.machinery(f"Apalache lemma {name}: {outcome}, expected {lemmas.LEMMAS[name]}")
    chk.exhaustive = True
    return chk.finish()


def replay(body) -> int:
    obs = body["case"]["observed"]
    seed = body["case"].get("seed", 0)
    for si, (name, mk, kind, ms) in enumerate(scorers()):
        if name == obs["scorer"] and "cut" in obs:
            X = data(obs["n"], seed)
            try:
                print("value", mk().fit(X).evaluate(np.array([obs["cut"]])))
            except Exception as e:
                print(type(e).__name__, e)
    return 1
