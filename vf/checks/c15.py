"""C15 -- thresholds and penalties follow their documented formulas and act monotonically.

Stage A  TLC: (i) Penalties.tla FormulaStructure on the grid of constants; (ii) Pelt.tla invariant
         PenaltyMonotoneInv: for every table, every optimal segmentation for a larger penalty has at
         most as many changepoints as every optimal one for a smaller penalty.
Stage B/C  values recorded from the implementation over the grid (n, p, scale, parameters per variable,
         bandwidth, level) -- fitted threshold_/penalty_ attributes and the public MVCAPA penalty
         functions -- are validated by TLC against the FORMULAS of Penalties.tla evaluated in fixed
         point; tuned thresholds against the quantile band on the recorded score vector; PELT runs
         with increasing penalty scales against monotonicity.
"""

from __future__ import annotations

import json
import math
from concurrent.futures import ProcessPoolExecutor
from fractions import Fraction

import numpy as np

from .. import stages, tlc
from ..common import Check, sha
from ..tlc import Workdir
from .c02 import base_consts

PROP = "C15"
U = 10000
SCALES = [(0, 1), (1, 2), (1, 1), (2, 1), (37, 10)]


def q(v):
    return int(round(float(v) * U))


def consts_for(n, p, k, L=None):
    c = {"ln_n": q(math.log(n)), "sqrt_ln_n": q(math.sqrt(math.log(n))), "sqrt_kln_n": q(math.sqrt(k * math.log(n))),
         "sqrt_pkln_n": q(math.sqrt(p * k * math.log(n))), "ln_kp": q(math.log(k * p))}
    if L is not None:
        c["ln_nl"] = q(math.log(n * L))
    return c


def grid():
    return [dict(n=n, p=p, k=k, **consts_for(n, p, k)) for n in (2, 3, 10, 100, 10000) for p in range(1, 9) for k in (1, 2)]


def record_values(args):
    import warnings

    warnings.filterwarnings("ignore")
    from skchange.anomaly_detectors import CAPA, CircularBinarySegmentation
    from skchange.anomaly_scores import L2Saving, Saving
    from skchange.change_detectors import PELT, MovingWindow, SeededBinarySegmentation
    from skchange.costs import GaussianCovCost, GaussianVarCost, L2Cost

    n, p = args
    out = []
    # NOT constant: with scale 0 a detector that (wrongly) tunes its threshold on the data must not land on 0 by accident
    X = ((np.arange(n)[:, None] * 7 + 3 * np.arange(p)[None, :]) % 5).astype(float)
    X[n // 2:] += 4.0
    for sn, sd in SCALES:
        sc = sn / sd
        base = {"rec": "value", "n": n, "p": p, "sn": sn, "sd": sd, "published": 0, "k": 1, **consts_for(n, p, 1, 7)}
        tol = 4 * p + 12
        rid = f"v-{n}-{p}-{sn}-{sd}"
        try:
            if n >= 2:
                out.append({**base, "id": rid + "-pelt", "what": "pelt", "q": q(PELT(penalty_scale=sc, min_segment_length=1).fit(X).penalty_), "tol": tol})
            # the defaults depend on the SHAPE of the data only, whatever scorer is plugged in (a cost with more
            # parameters per variable does not change PELT's 2 p log n, nor the thresholds of the other detectors)
            for tag, mk, ms in (("var", lambda: GaussianVarCost(), 2), ("cov", lambda: GaussianCovCost(), p + 1),
                                ("l2fixed", lambda: L2Cost(param=0.5), 1)):
                if n >= 2 * ms:
                    out.append({**base, "id": rid + "-pelt-" + tag, "what": "pelt", "tol": tol,
                                "q": q(PELT(cost=mk(), penalty_scale=sc, min_segment_length=ms).fit(X).penalty_)})
                    if tag != "cov":
                        out.append({**base, "id": rid + "-sbs-" + tag, "what": "seeded", "tol": tol,
                                    "q": q(SeededBinarySegmentation(change_score=mk(), threshold_scale=sc, min_segment_length=ms,
                                                                    max_interval_length=max(7, 2 * ms)).fit(X).threshold_)})
                        out.append({**base, "id": rid + "-cbs-" + tag, "what": "circular", "tol": tol,
                                    "q": q(CircularBinarySegmentation(anomaly_score=mk(), threshold_scale=sc, min_segment_length=ms,
                                                                      max_interval_length=max(7, 2 * ms)).fit(X).threshold_)})
            if n >= 2:
                out.append({**base, "id": rid + "-sbs", "what": "seeded", "tol": tol,
                            "q": q(SeededBinarySegmentation(threshold_scale=sc, min_segment_length=1, max_interval_length=7).fit(X).threshold_)})
                out.append({**base, "id": rid + "-cbs", "what": "circular", "tol": tol,
                            "q": q(CircularBinarySegmentation(threshold_scale=sc, min_segment_length=1, max_interval_length=7).fit(X).threshold_)})
                for b in (1, 2, 5):
                    if n >= 2 * b:
                        for level in (0.01, 0.1):
                            det = MovingWindow(bandwidth=b, threshold_scale=sc, level=level).fit(X)
                            pub = MovingWindow.get_default_threshold(n, p, b, level)
                            if math.isfinite(pub) and abs(pub) < 1e4:
                                out.append({**base, "id": rid + f"-mw{b}-{level}", "what": "moving_window", "published": q(pub),
                                            "q": q(det.threshold_) if pub >= 0 else q(abs(det.threshold_)), "tol": tol} if pub >= 0 else
                                           {**base, "id": rid + f"-mw{b}-{level}", "what": "moving_window", "published": q(-pub),
                                            "q": q(-det.threshold_), "tol": tol})
            for mk, kpv in ((lambda: L2Saving(), 1), (lambda: Saving(GaussianVarCost(param=(0.0, 1.0))), 2)):
                if n >= 2:
                    det = CAPA(collective_saving=mk(), collective_penalty_scale=sc, point_penalty_scale=sc, min_segment_length=2).fit(X)
                    k = kpv * p  # parameters per segment across all variables
                    cc = consts_for(n, p, k, 7)
                    out.append({**base, **cc, "id": rid + f"-capa{kpv}", "what": "capa_collective", "k": k, "q": q(det.collective_penalty_), "tol": 4 * k + 12})
                    out.append({**base, **cc, "id": rid + f"-capap{kpv}", "what": "capa_point", "k": k, "q": q(det.point_penalty_), "tol": 4 * k * p + 12})
        except Exception as e:
            out.append({"id": rid, "error": repr(e)[:200], "n": n, "p": p})
    return out


def record_families():
    from skchange.anomaly_detectors.mvcapa import (combined_mvcapa_penalty, dense_mvcapa_penalty,
                                                   intermediate_mvcapa_penalty, sparse_mvcapa_penalty)

    fams = {"dense": dense_mvcapa_penalty, "sparse": sparse_mvcapa_penalty, "intermediate": intermediate_mvcapa_penalty,
            "combined": combined_mvcapa_penalty}
    out = []
    for n in (2, 3, 10, 100, 10000):
        for p in list(range(1, 9)) + [12, 25, 40, 60]:   # the intermediate family only becomes the minimum for large p
            for k in (1, 2):
                for sn, sd in SCALES:
                    for fam, f in fams.items():
                        if fam == "intermediate" and p < 2:
                            continue
                        rid = f"f-{fam}-{n}-{p}-{k}-{sn}-{sd}"
                        try:
                            a, b = f(n, p, k, sn / sd)
                            a1, b1 = f(n, p, k, 1.0)
                            rec = {"id": rid, "rec": "family", "fam": fam, "n": n, "p": p, "k": k, "sn": sn, "sd": sd, "tol": 6 * p * k + 16,
                                   "alpha": q(a), "betas": [q(x) for x in b], "alpha1": q(a1), "betas1": [q(x) for x in b1],
                                   "dense_cum": [], "sparse_cum": [], "inter_cum": [], **consts_for(n, p, k)}
                            if fam == "combined" and p >= 2:
                                for key, g in (("dense_cum", dense_mvcapa_penalty), ("sparse_cum", sparse_mvcapa_penalty), ("inter_cum", intermediate_mvcapa_penalty)):
                                    ga, gb = g(n, p, k, sn / sd)
                                    rec[key] = [q(ga + float(np.sum(gb[: j + 1]))) for j in range(p)]
                            if any(abs(v) > 2 ** 30 for v in [rec["alpha"]] + rec["betas"]):
                                continue
                            out.append(rec)
                        except Exception as e:
                            out.append({"id": rid, "error": repr(e)[:200], "fam": fam, "n": n, "p": p})
    return out


def record_tuned(args):
    import warnings

    warnings.filterwarnings("ignore")
    from skchange.anomaly_detectors import CircularBinarySegmentation
    from skchange.change_detectors import PELT, MovingWindow, SeededBinarySegmentation

    seed, count = args
    rng = np.random.default_rng(seed)
    out = []
    for i in range(count):
        n = int(rng.integers(12, 60))
        p = int(rng.integers(1, 3))
        X = rng.integers(-4, 5, size=(n, p)).astype(float) / 2.0
        ln, ld = [(1, 100), (1, 10), (1, 4), (1, 2)][int(rng.integers(0, 4))]
        level = ln / ld
        which = int(rng.integers(0, 3))
        rid = f"t-{seed}-{i}"
        try:
            if which == 0:
                det = MovingWindow(bandwidth=int(rng.integers(1, 5)), threshold_scale=None, level=level).fit(X)
                scores = det.transform_scores(X).to_numpy().ravel()
            elif which == 1:
                det = SeededBinarySegmentation(min_segment_length=int(rng.integers(1, 4)), max_interval_length=int(rng.integers(8, 30)),
                                               threshold_scale=None, level=level).fit(X)
                det.predict(X)
                scores = det.scores["score"].to_numpy()
            else:
                det = CircularBinarySegmentation(min_segment_length=int(rng.integers(1, 3)), max_interval_length=int(rng.integers(6, 14)),
                                                 threshold_scale=None, level=level).fit(X)
                det.predict(X)
                scores = det.scores["score"].to_numpy()
            mag = max(1.0, float(np.max(np.abs(scores))), abs(float(det.threshold_)))
            unit = mag / 2 ** 24
            out.append({"id": rid, "rec": "quantile", "det": type(det).__name__, "xs": sorted(int(round(v / unit)) for v in scores),
                        "qn": ld - ln, "qd": ld, "thr": int(round(det.threshold_ / unit)), "tol": 4, "n": n})
            # penalty monotonicity on the same data
            counts = [len(PELT(penalty_scale=s, min_segment_length=int(rng.integers(1, 3))).fit(X).predict(X)) for s in (0.0,)]
            m = int(rng.integers(1, 4))
            counts = [len(PELT(penalty_scale=s, min_segment_length=m).fit(X).predict(X)) for s in (0.0, 0.05, 0.2, 0.7, 1.5, 4.0)]
            out.append({"id": rid + "m", "rec": "monotone", "counts": counts, "n": n, "m": m})
        except Exception as e:
            out.append({"id": rid, "error": repr(e)[:200], "n": n})
    return out


def run(tier: str) -> int:
    chk = Check(PROP, tier)
    chk.rule = ("grid n in {2,3,10,100,10^4} x p in 1..8 (penalty families also p in {12,25,40,60}) x scales {0, 1/2, 1, 2, 3.7} x parameters per variable {1,2} x "
                "bandwidths {1,2,5} x levels: fitted attributes of PELT / Seeded / Circular / MovingWindow / CAPA and the four "
                "public MVCAPA penalty families, each validated by TLC against the fixed-point formula; tuned thresholds and "
                "PELT penalty sweeps on seeded lattice data.  Non-trivial = scale > 0 (value/family records), every tuned / "
                "monotone record; distinct record ids.")
    chk.assumptions = ["TLC/SANY and the Json module", "math.log / math.sqrt supply the constants ln n, ln(kp), sqrt(k ln n) (trusted); "
                       "the chi-square terms of the intermediate family are taken from the implementation",
                       "fixed point with unit 1e-4 and tolerances of a few units"]
    with Workdir(PROP) as wd:
        # stage A (ii): penalty monotonicity of the optimal segmentations, every table
        for label, cs in ([("N5-M2-V1", base_consts(N=5, M=2, V=1, MaxBeta=3)), ("N4-M1-V2", base_consts(N=4, M=1, V=2, MaxBeta=3))] if tier == "quick"
                          else [("N5-M2-V2", base_consts(N=5, M=2, V=2, MaxBeta=3)), ("N5-M1-V1", base_consts(N=5, M=1, V=1, MaxBeta=4)),
                                ("N6-M2-V1", base_consts(N=6, M=2, V=1, MaxBeta=3))]):
            stages.model_check(chk, "Pelt", cs, ["PenaltyMonotoneInv", "PrefixOptimal"], wd=wd, label="A:monotone-" + label, init="InitAll")
        # records
        shapes = [(n, p) for n in (2, 3, 10, 100, 10000) for p in range(1, 9)]
        with ProcessPoolExecutor(max_workers=stages.NCPU) as ex:
            recs = [r for part in ex.map(record_values, shapes) for r in part]
            recs += record_families()
            count = 20 if tier == "quick" else 300
            recs += [r for part in ex.map(record_tuned, [(chk.seed + k, count) for k in range(16)]) for r in part]
        for r in [r for r in recs if "error" in r]:
            chk.case(r)
            chk.violation({"stage": "C", "record": r}, "raises", {"clause": "raises", "n": r.get("n"), "p": r.get("p"), "fam": r.get("fam")})
        recs = [r for r in recs if "error" not in r]
        gpath = wd.file("grid.json")
        json.dump(grid(), open(gpath, "w"))
        # stage A (i) + validation of the records, in batches
        verdicts = {}
        batches = [recs[i:i + 800] for i in range(0, len(recs), 800)]

        def one(kb):
            k, b = kb
            path = wd.file(f"pen-{k}.json")
            json.dump(b, open(path, "w"))
            cfg = tlc.cfg_text(None, invariants=["GridOK"] if k == 0 else [])
            return tlc.run("Penalties", cfg, workdir=wd, workers=1, env={"TRACE_FILE": path, "GRID_FILE": gpath}, tag=f"C-pen-{k}", heap="3g")

        from concurrent.futures import ThreadPoolExecutor

        with ThreadPoolExecutor(max_workers=8) as tex:
            for res in tex.map(one, enumerate(batches)):
                chk.add_tlc(res, "C:penalties")
                if res.violated:
                    chk.violation({"stage": "A", "invariant": res.violated}, "formula_structure", {"clause": "formula_structure"})
                for pr in res.tagged("VERDICT"):
                    verdicts[pr[1]] = pr[2]
        chk.traces += len(verdicts)
        for r in recs:
            v = verdicts.get(r["id"])
            nontrivial = r["rec"] in ("quantile", "monotone") or r.get("sn", 1) > 0
            chk.case({k: r[k] for k in r if k not in ("xs",)}, nontrivial=nontrivial, key=r["id"])
            if v is None:
                chk.machinery(f"no verdict for {r['id']}")
            elif v != "ok":
                clause = v.split(":", 1)[1]
                chk.violation({"stage": "C", "record": r, "verdict": v}, clause,
                              {"clause": clause, "what": r.get("what") or r.get("fam") or r.get("det"), "n": r.get("n"), "p": r.get("p")})
    return chk.finish()


def replay(body) -> int:
    print(body["case"])
    return 1
