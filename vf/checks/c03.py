"""C03 -- CAPA / MVCAPA anomalies maximise the total penalised saving.

Stage A  TLC: Capa.tla (run_base_capa with the three penalise_savings branches, delayed pruning,
         get_anomalies) refines AnomalySets.tla for every sub-additive non-negative table, penalty
         and (M, Mx) within the constants.
Stage B  every TLC case replayed through run_base_capa and the MVCAPA class (callable penalties).
Stage C  recorded runs of CAPA / MVCAPA (random tables; built-in savings on lattice data with all
         penalty families) validated by Trace_Capa.tla.
"""

from __future__ import annotations

import math
from concurrent.futures import ProcessPoolExecutor

import numpy as np

from .. import stages
from ..common import Check, sha, touch_same_index
from ..tlc import Workdir

PROP = "C03"
INVS = ["PrefixOptimal", "NonNegNonDecr", "BranchAgrees", "PruneSound", "WellFormed", "ReEvaluate",
        "IgnorePoints", "TableAdmissible", "AffectedAdmitted", "RefSeqIsRef"]


def consts(**kw):
    c = dict(N=4, P=1, M=2, Mx=3, V=2, CAs={0, 1, 3}, PAs={1, 3}, BetaSel="zero", PBs={0},
             StartMode="index", AlphaMode="once", EarlyPts=True, PointRow="unit", PruneMode="delayed",
             Emit=False, NSlices=1, Slice=0)
    c.update(kw)
    return c


STAGE_A = {
    "quick": [
        ("N4-P1-V1", consts(N=4, V=1, Mx=4, CAs={0, 1, 2}, PAs={0, 1}), INVS + ["RefIsOpt"]),
        ("N5-P1-V1", consts(N=5, V=1, Mx=4, CAs={1}, PAs={2}), INVS),
        ("N3-P1-V2", consts(N=3, V=2, Mx=3), INVS + ["RefIsOpt"]),
        ("N3-P2-V1-general", consts(N=3, P=2, V=1, Mx=3, CAs={1}, PAs={1}, BetaSel="general", PBs={0}),
         INVS + ["RefIsOpt"]),
    ],
    "thorough": [
        ("N4-P1-V2", consts(N=4, V=2, Mx=3), INVS),
        ("N4-P1-V1", consts(N=4, V=1, Mx=4, CAs={0, 1, 2}, PAs={0, 1}), INVS + ["RefIsOpt"]),
        ("N5-P1-V1 (1 of 8)", consts(N=5, V=1, Mx=5, CAs={0, 1, 2}, PAs={1, 2}, NSlices=8), INVS),
        ("N5-P1-V1-M3 (1 of 8)", consts(N=5, V=1, M=3, Mx=4, CAs={0, 1, 2}, PAs={1, 2}, NSlices=8), INVS),
        # NSlices > 1 in stage A: one slice of the initial states (chosen by the seed) is model-checked
        ("N6-P1-V1-M2 (1 of 4096)", consts(N=6, V=1, M=2, Mx=5, CAs={1}, PAs={2}, NSlices=4096), INVS),  # 90 ms per state: 1/512 = 375 s
        ("N3-P2-V2-equal (1 of 64)", consts(N=3, P=2, V=2, Mx=3, CAs={0, 2}, PAs={1}, BetaSel="equal", PBs={0, 1}, NSlices=64), INVS),
        ("N3-P2-V1-general", consts(N=3, P=2, V=1, Mx=3, CAs={0, 1}, PAs={1}, BetaSel="general", PBs={0, 1}),
         INVS + ["RefIsOpt"]),
        ("N4-P2-V1-general (1 of 256)", consts(N=4, P=2, V=1, Mx=3, CAs={1}, PAs={1}, BetaSel="general", PBs={0}, NSlices=256), INVS),
        ("N2-P3-V1-general", consts(N=2, P=3, V=1, Mx=2, CAs={0, 1}, PAs={1}, BetaSel="general", PBs={0, 1}),
         INVS + ["RefIsOpt"]),
    ],
}

# (label, constants, number of slices, slices to run (None = all))
STAGE_B = {
    "quick": [("N4-P1-V2", consts(N=4, V=2, Mx=3), 256, [0, 1, 2]),
              ("N5-P1-V1", consts(N=5, V=1, Mx=4, CAs={0, 1}, PAs={1, 2}), 256, [0, 1, 2]),
              ("N3-P2-V1", consts(N=3, P=2, V=1, Mx=3, CAs={0, 1}, PAs={1}, BetaSel="general", PBs={0, 1}), 128, [0, 1, 2])],
    "thorough": [("N4-P1-V2", consts(N=4, V=2, Mx=3), 64, list(range(16))),
                 ("N5-P1-V1", consts(N=5, V=1, Mx=5, CAs={0, 1, 2}, PAs={1, 2}), 64, list(range(16))),
                 ("N3-P2-V1", consts(N=3, P=2, V=1, Mx=3, CAs={0, 1}, PAs={1}, BetaSel="general", PBs={0, 1}), 64, list(range(16))),
                 ("N4-P2-V1", consts(N=4, P=2, V=1, Mx=3, CAs={1}, PAs={1}, BetaSel="general", PBs={0}), 2048, list(range(4)))],
}


# ----------------------------------------------------------------------------- helpers
def case_table(case):
    n = case["n"]
    S = case["S"]
    tab = {}
    for s in range(n):
        row = S[str(s)] if isinstance(S, dict) else S[s]
        for e in range(s + 1, n + 1):
            tab[(s, e)] = [float(v) for v in row[e - 1]]
    return tab


class ConstPenalty:
    """Callable penalty (documented interface of MVCAPA): returns the given (alpha, betas)."""

    def __init__(self, alpha, betas):
        self.alpha = alpha
        self.betas = list(betas)

    def __call__(self, n, p, n_params_per_variable=1, scale=1.0):
        return float(self.alpha) * scale, np.asarray(self.betas, dtype=float) * scale

    def __repr__(self):
        return f"ConstPenalty({self.alpha}, {self.betas})"


def rows_of(df):
    iv = df["ilocs"].array
    return [(int(l), int(r)) for l, r in zip(iv.left, iv.right)]


def decode_ivs(seq):
    return tuple(sorted((v // 100, v % 100) for v in seq))


def run_mvcapa_case(table, n, p, m, mx, ca, cb, pa, pb, ignore=False, log=False):
    from skchange.anomaly_detectors import MVCAPA

    from ..doubles import TableSaving, new_log, take_log

    lid = new_log() if log else None
    int_out = (n + m + mx + int(ca)) % 2 == 1     # every second case: the savings come back as int64 arrays
    det = MVCAPA(collective_saving=TableSaving(table, p=p, size=1, log_id=lid, int_out=int_out),
                 point_saving=TableSaving(table, p=p, size=1, int_out=int_out),
                 collective_penalty=ConstPenalty(ca, cb), collective_penalty_scale=1.0,
                 point_penalty=ConstPenalty(pa, pb), point_penalty_scale=1.0,
                 min_segment_length=m, max_segment_length=mx, ignore_point_anomalies=ignore)
    X = np.zeros((n, p))
    det.fit(X)
    out = det.predict(X)
    calls = take_log(lid) if log else None
    return det, out, calls


def replay_case(case):
    from skchange.anomaly_detectors.mvcapa import run_base_capa

    from ..doubles import TableSaving, new_log, take_log

    n, p, m, mx = case["n"], case["p"], case["m"], case["mx"]
    ca, cb, pa, pb = case["ca"], case["cb"], case["pa"], case["pb"]
    table = case_table(case)
    opt = case["opt"]
    optsets = {decode_ivs(x) for x in case["optsets"]}
    fails, drift = [], []
    # (a) module-level function
    lid = new_log()
    cs = TableSaving(table, p=p, size=1, log_id=lid).fit(np.zeros((n, p)))
    ps = TableSaving(table, p=p, size=1).fit(np.zeros((n, p)))
    scores, coll, pts = run_base_capa(cs, ps, float(ca), np.asarray(cb, float), float(pa),
                                      np.asarray(pb, float), m, mx)
    calls = take_log(lid)
    got = tuple(sorted([(int(a), int(b)) for a, b in coll] + [(int(a), int(b)) for a, b in pts]))
    obs = {"entry": "run_base_capa", "scores": [float(x) for x in scores], "anomalies": list(got)}
    if any(scores[T - 1] != opt[T - 1] for T in range(1, n + 1)):
        fails.append(("prefix_optimum", obs))
    elif got not in optsets:
        fails.append(("anomalies_not_optimal", obs))
    starts_log = [[c[0] for c in call] for call in calls]
    if starts_log != [list(x) for x in case["evlog"]]:
        drift.append("run_base_capa evaluates other start sets than Capa.tla's `starts`")
    # (b) the public class
    try:
        det, out, _ = run_mvcapa_case(table, n, p, m, mx, ca, cb, pa, pb)
        rows = tuple(rows_of(out))
        sc = det.scores.to_numpy()
        obs2 = {"entry": "MVCAPA", "scores": [float(x) for x in sc], "anomalies": list(rows)}
        if any(sc[T - 1] != opt[T - 1] for T in range(1, n + 1)):
            fails.append(("prefix_optimum", obs2))
        elif rows not in optsets:
            fails.append(("anomalies_not_optimal", obs2))
        det2, out2, _ = run_mvcapa_case(table, n, p, m, mx, ca, cb, pa, pb, ignore=True)
        rows2 = tuple(rows_of(out2))
        if rows2 != tuple(r for r in rows if r[1] - r[0] > 1):
            fails.append(("ignore_point_anomalies", {"entry": "MVCAPA", "with": list(rows), "without": list(rows2)}))
    except Exception as e:  # the class must run on every valid input
        fails.append(("raises", {"entry": "MVCAPA", "error": repr(e)[:300]}))
    nontrivial = len(optsets) > 1 or opt[-1] > 0
    return fails, drift, nontrivial


def _replay_chunk(cases):
    import warnings

    warnings.filterwarnings("ignore")
    return [replay_case(c) for c in cases]


# ----------------------------------------------------------------------------- stage C
def random_saving_table(rng, n, p, v):
    S = {}
    for ln in range(1, n + 1):
        for s in range(0, n - ln + 1):
            e = s + ln
            if ln == 1:
                S[(s, e)] = [int(rng.integers(0, v + 1)) for _ in range(p)]
            else:
                S[(s, e)] = [max(0, min(S[(s, k)][j] + S[(k, e)][j] for k in range(s + 1, e))
                                 - int(rng.integers(0, 3))) for j in range(p)]
    return S


def linear_saving_table(rng, n, p):
    """Nearly additive tables (a dense anomaly with about the same level in every component): the savings of
    long intervals stay close to the sum of their parts, so early starts remain optimal for late ends --
    the regime in which a pruning margin that is too small shows."""
    w = [int(rng.integers(3, 11)) for _ in range(p)]
    S = {}
    for ln in range(1, n + 1):
        for s in range(0, n - ln + 1):
            e = s + ln
            if ln == 1:
                S[(s, e)] = [max(0, w[j] - int(rng.integers(0, 2)) * int(rng.integers(0, 3))) for j in range(p)]
            else:
                S[(s, e)] = [max(0, min(S[(s, k)][j] + S[(k, e)][j] for k in range(s + 1, e))
                                 - (0 if rng.random() < 0.7 else int(rng.integers(0, 3)))) for j in range(p)]
    return S


def record_r1(seed, count, nmax):
    rng = np.random.default_rng(seed)
    out = []
    for i in range(count):
        linear = bool(i % 2)
        n = int(rng.integers(5 if linear else 2, nmax + 2 if linear else nmax + 1))
        p = int(rng.choice([2, 2, 3])) if linear else int(rng.choice([1, 1, 2, 3]))
        m = int(rng.integers(2, max(2, min(n, 3 if linear else 5)) + 1))
        if m > n:
            m = n
        if m < 2:
            continue
        mx = int(rng.integers(m, n)) if linear else int(rng.integers(m, n + 3))
        v = int(rng.integers(1, 6))
        if linear:
            S = linear_saving_table(rng, n, p)
            ca = int(rng.integers(0, 3))
            cb = [int(rng.integers(1, 12))] * p if rng.random() < 0.6 else sorted(int(rng.integers(0, 12)) for _ in range(p))
            pa = int(rng.integers(5, 40))
            pb = [0] * p
        else:
            S = random_saving_table(rng, n, p, v)
            ca = int(rng.integers(0, 5))
            pa = int(rng.integers(0, 5))
            fam = int(rng.integers(0, 3))
            cb = [0] * p if fam == 0 else [int(rng.integers(0, 3))] * p if fam == 1 else [int(rng.integers(0, 3)) for _ in range(p)]
            pb = [int(rng.integers(0, 2))] * p
        table = {k: [float(x) for x in val] for k, val in S.items()}
        ignore = bool(rng.integers(0, 2))
        try:
            det, outp, _ = run_mvcapa_case(table, n, p, m, mx, ca, cb, pa, pb, ignore=ignore)
        except Exception as e:  # a valid configuration on valid input must run
            out.append({"id": f"r1-{seed}-{i}", "error": repr(e)[:200], "n": n, "p": p, "m": m, "mx": mx,
                        "X": [[k, v] for k, v in sorted(table.items())], "pen": [ca, cb, pa, pb]})
            continue
        rows = rows_of(outp)
        sc = det.scores.to_numpy()
        out.append({"id": f"r1-{seed}-{i}", "rec": "run", "regime": "R1", "entry": "MVCAPA", "n": n, "p": p, "m": m,
                    "mx": mx, "ca": ca, "cb": cb, "pa": pa, "pb": pb, "tol": 0, "ignore": ignore,
                    "S": [[[int(x) for x in S.get((s, e), [0] * p)] for e in range(1, n + 1)] for s in range(n)],
                    "scores": [int(round(float(x))) for x in sc], "rows": [list(r) for r in rows]})
    return out


def record_r3(seed, count, nmax):
    """Built-in savings on lattice data, CAPA and MVCAPA with every penalty family; savings and
    penalties are recorded from the public API and quantised."""
    from skchange.anomaly_detectors import CAPA, MVCAPA
    from skchange.anomaly_detectors.mvcapa import capa_penalty_factory
    from skchange.anomaly_scores import L2Saving, Saving
    from skchange.costs import GaussianVarCost, L2Cost

    from .c02 import _lattice

    rng = np.random.default_rng(seed)
    out = []
    i = 0
    tries = 0
    while len(out) < count and tries < 5 * count:
        tries += 1
        n = int(rng.integers(2, nmax + 1))
        p = int(rng.choice([1, 2, 3, 4]))
        which = int(rng.integers(0, 3))
        if which == 0:
            mk, ms, name = (lambda: L2Saving()), 1, "L2Saving"
        elif which == 1:
            mk, ms, name = (lambda: Saving(L2Cost(param=0.0))), 1, "Saving(L2Cost(0))"
        else:
            mk, ms, name = (lambda: Saving(GaussianVarCost(param=(0.0, 1.0)))), 2, "Saving(GaussianVarCost((0,1)))"
        m = int(rng.integers(max(2, ms), max(2, ms, min(n, 5)) + 1))
        if m > n:
            continue
        mx = int(rng.integers(m, n + 3))
        X = _lattice(rng, n, p)
        cscale = float(rng.choice([0.0, 0.05, 0.2, 0.5, 1.0]))
        pscale = float(rng.choice([0.0, 0.05, 0.2, 0.5, 1.0]))
        ignore = bool(rng.integers(0, 2))
        use_capa = bool(rng.integers(0, 2))
        ref = mk().fit(X)
        S = {}
        for s in range(n):
            for e in range(s + 1, n + 1):
                if e - s >= ms:
                    S[(s, e)] = [float(x) for x in ref.evaluate(np.array([[s, e]]))[0]]
        pref = L2Saving().fit(X)
        Spt = {(s, s + 1): [float(x) for x in pref.evaluate(np.array([[s, s + 1]]))[0]] for s in range(n)}
        # integer-valued data go to the detector as int64 half of the time (tables are recorded from the float copy)
        Xf = X
        X = X.astype(np.int64) if np.all(X == np.round(X)) and rng.integers(0, 2) else X
        try:
            if use_capa:
                det = CAPA(collective_saving=mk(), point_saving=L2Saving(), collective_penalty_scale=cscale,
                           point_penalty_scale=pscale, min_segment_length=m, max_segment_length=mx,
                           ignore_point_anomalies=ignore).fit(X)
                outp = det.predict(X)
                ca, cb = float(det.collective_penalty_), [0.0] * p
                pa, pb = float(det.point_penalty_), [0.0] * p
                # CAPA aggregates over columns: one component holding the column sum
                S = {k: [sum(v)] for k, v in S.items()}
                Spt = {k: [sum(v)] for k, v in Spt.items()}
                pp = 1
                cb, pb = [0.0], [0.0]
                fam = "capa"
            else:
                fam = str(rng.choice(["dense", "sparse", "intermediate", "combined"]))
                pfam = str(rng.choice(["dense", "sparse"]))
                if fam == "intermediate" and p < 2:
                    fam = "sparse"
                det = MVCAPA(collective_saving=mk(), point_saving=L2Saving(), collective_penalty=fam,
                             collective_penalty_scale=cscale, point_penalty=pfam, point_penalty_scale=pscale,
                             min_segment_length=m, max_segment_length=mx, ignore_point_anomalies=ignore).fit(X)
                outp = det.predict(X)
                ca, cb = capa_penalty_factory(fam)(n, p, ref.get_param_size(1), scale=cscale)
                pa, pb = capa_penalty_factory(pfam)(n, p, 1, scale=pscale)
                ca, cb, pa, pb = float(ca), [float(x) for x in cb], float(pa), [float(x) for x in pb]
                pp = p
                fam = f"{fam}/{pfam}"
        except Exception as e:
            out.append({"id": f"r3-{seed}-{i}", "error": repr(e)[:200], "n": n, "p": p, "m": m, "mx": mx,
                        "X": X.tolist(), "saving": name})
            i += 1
            continue
        rows = rows_of(outp)
        sc = det.scores.to_numpy()
        vals = [x for v in S.values() for x in v] + [x for v in Spt.values() for x in v] + [ca, pa] + cb + pb + list(sc)
        if not all(math.isfinite(v) for v in vals):
            continue
        mag = max(1.0, max(abs(v) for v in vals))
        unit = mag * (2 * n + 6) * max(1, pp) / 2 ** 30
        q = lambda v: int(round(v / unit))
        # unit intervals carry the point saving; with ms = 2 the collective table has no unit entries
        full = dict(S)
        for k, v in Spt.items():
            full[k] = v
        out.append({"id": f"r3-{seed}-{i}", "rec": "run", "regime": "R3", "entry": "CAPA" if use_capa else "MVCAPA",
                    "saving": name, "family": fam, "n": n, "p": pp, "m": m, "mx": mx,
                    "ca": q(ca), "cb": [q(x) for x in cb], "pa": q(pa), "pb": [q(x) for x in pb],
                    "tol": 2 * n * (pp + 1) + 4, "unit": unit, "ignore": ignore,
                    "S": [[[q(x) for x in full.get((s, e), [0.0] * pp)] for e in range(1, n + 1)] for s in range(n)],
                    "scores": [q(float(x)) for x in sc], "rows": [list(r) for r in rows], "X": X.tolist()})
        i += 1
    return out


def record_long(seed, count):
    """Long series (n 60..200) through CAPA / MVCAPA with the L2 saving: behaviour that only shows after many
    iterations (pruning over long horizons, max_segment_length much smaller than n)."""
    from skchange.anomaly_detectors import CAPA, MVCAPA
    from skchange.anomaly_detectors.mvcapa import capa_penalty_factory
    from skchange.anomaly_scores import L2Saving

    rng = np.random.default_rng(seed)
    out = []
    for i in range(count):
        n = int(rng.integers(60, 201))
        p = int(rng.integers(1, 3))
        m = int(rng.choice([2, 3, 5]))
        mx = int(rng.choice([m + 3, 15, 40, 1000]))
        X = rng.integers(-2, 3, size=(n, p)) / 2.0
        for _ in range(int(rng.integers(1, 6))):
            s0 = int(rng.integers(0, n - 3))
            e0 = min(n, s0 + int(rng.integers(1, 30)))
            X[s0:e0, rng.integers(0, p)] += float(rng.integers(-5, 6))
        cscale, pscale = float(rng.choice([0.2, 0.5, 1.0])), float(rng.choice([0.2, 0.5, 1.0]))
        use_capa = bool(rng.integers(0, 2))
        ref = L2Saving().fit(X)
        cuts = np.array([(s, e) for s in range(n) for e in range(s + 1, min(n, s + min(mx, n)) + 1)])
        vals = ref.evaluate(cuts)
        try:
            if use_capa:
                det = CAPA(collective_penalty_scale=cscale, point_penalty_scale=pscale, min_segment_length=m, max_segment_length=mx).fit(X)
                if rng.integers(0, 2):
                    touch_same_index(det, X)
                outp = det.predict(X)
                ca, cb, pa, pb, pp = float(det.collective_penalty_), [0.0], float(det.point_penalty_), [0.0], 1
                vals = vals.sum(axis=1, keepdims=True)
            else:
                fam = str(rng.choice(["dense", "sparse", "combined"]))
                det = MVCAPA(collective_penalty=fam, collective_penalty_scale=cscale, point_penalty="sparse", point_penalty_scale=pscale,
                             min_segment_length=m, max_segment_length=mx).fit(X)
                if rng.integers(0, 2):
                    touch_same_index(det, X)
                outp = det.predict(X)
                ca, cb = capa_penalty_factory(fam)(n, p, 1, scale=cscale)
                pa, pb = capa_penalty_factory("sparse")(n, p, 1, scale=pscale)
                ca, cb, pa, pb, pp = float(ca), [float(x) for x in cb], float(pa), [float(x) for x in pb], p
        except Exception as e:
            out.append({"id": f"long-{seed}-{i}", "error": repr(e)[:200], "n": n, "p": p, "m": m, "mx": mx, "X": X.tolist(), "saving": "L2Saving"})
            continue
        rows = rows_of(outp)
        sc = det.scores.to_numpy()
        allv = [float(v) for v in vals.ravel()] + [ca, pa] + cb + pb + [float(x) for x in sc]
        mag = max(1.0, max(abs(v) for v in allv))
        unit = mag * (2 * n + 6) * max(1, pp) / 2 ** 30
        q = lambda v: int(round(v / unit))
        S = [[[0] * pp for _ in range(n)] for _ in range(n)]
        for (s, e), v in zip(cuts, vals):
            S[int(s)][int(e) - 1] = [q(float(x)) for x in v]
        out.append({"id": f"long-{seed}-{i}", "rec": "run", "regime": "R3", "entry": "CAPA" if use_capa else "MVCAPA", "saving": "L2Saving",
                    "family": "long", "n": n, "p": pp, "m": m, "mx": min(mx, n), "ca": q(ca), "cb": [q(x) for x in cb], "pa": q(pa),
                    "pb": [q(x) for x in pb], "tol": 2 * n * (pp + 1) + 4, "unit": unit, "ignore": False, "S": S,
                    "scores": [q(float(x)) for x in sc], "rows": [list(r) for r in rows], "X": []})
    return out


def _rec(args):
    import warnings

    warnings.filterwarnings("ignore")
    kind, seed, count, nmax = args
    if kind == "long":
        return record_long(seed, count)
    return record_r1(seed, count, nmax) if kind == "r1" else record_r3(seed, count, nmax)


def run_common(chk, tier, stage_a, stage_b, r1, r3, wd):
    for label, cs, invs in stage_a:
        if cs.get("NSlices", 1) > 1:
            cs = dict(cs, Slice=chk.seed % cs["NSlices"])
        stages.model_check(chk, "Capa", cs, invs, wd=wd, label="A:" + label,
                           coverage=(tier == "thorough"), expect_actions=("Start", "Step", "Back"))
    cases = []
    for label, cs, nsl, slices in stage_b:
        if slices is not None:
            slices = sorted({(s + chk.seed) % nsl for s in slices})
        cases += stages.emit_cases(chk, "Capa", cs, wd=wd, label="B:" + label, nslices=nsl, slices=slices)
    uniq = {}
    for c in cases:
        uniq.setdefault(sha([c[k] for k in ("n", "p", "m", "mx", "ca", "cb", "pa", "pb", "S")]), c)
    return list(uniq.items())


def run(tier: str) -> int:
    chk = Check(PROP, tier)
    chk.rule = ("stage A: every sub-additive non-negative saving table (unit values and slacks in 0..V) x "
                "penalties x (M, Mx) within the constants, exhaustive in TLC; stage B: emitted cases "
                "replayed through run_base_capa and MVCAPA(callable penalties), with and without "
                "ignore_point_anomalies; stage C: seeded random tables and built-in savings on lattice "
                "data.  Non-trivial = a positive optimum (some anomaly is reported) or several optimal "
                "anomaly sets; distinct by hash of (table, penalties, M, Mx).")
    chk.assumptions = ["TLC/SANY and the Json module", "float64 exact on small integer tables",
                       "R3: deviations below tol*unit are rounding"]
    with Workdir(PROP) as wd:
        cases = run_common(chk, tier, STAGE_A[tier], STAGE_B[tier], None, None, wd)
        with ProcessPoolExecutor(max_workers=stages.NCPU) as ex:
            chunks = [cases[i::64] for i in range(64) if cases[i::64]]
            results = ex.map(_replay_chunk, [[c for _, c in ch] for ch in chunks])
            for chunk, ress in zip(chunks, results):
                for (key, case), (fails, drift, nontrivial) in zip(chunk, ress):
                    chk.case({"stage": "B", **{k: case[k] for k in ("n", "p", "m", "mx", "ca", "cb", "pa", "pb", "S", "opt", "optsets")}},
                             nontrivial=nontrivial, key=key)
                    chk.traces += 1
                    for d in drift:
                        chk.spec_drift(d)
                    for clause, obs in fails:
                        chk.violation({"stage": "B", "case": case, "observed": obs}, clause,
                                      {"detector": "CAPA", "input_sha": key, "clause": clause})
        n_r1, n_r3 = (480, 480) if tier == "quick" else (8000, 8000)
        jobs = [("r1", chk.seed + k, n_r1 // 16, 10) for k in range(16)] + \
               [("r3", chk.seed + 100 + k, n_r3 // 16, 10) for k in range(16)] + \
               [("long", chk.seed + 200 + k, 1 if tier == "quick" else 10, 0) for k in range(8)]
        with ProcessPoolExecutor(max_workers=stages.NCPU) as ex:
            traces = [t for part in ex.map(_rec, jobs) for t in part]
        judge_traces(chk, traces, wd)
    return chk.finish()


def judge_traces(chk, traces, wd, label="C:capa"):
    errs = [t for t in traces if "error" in t]
    for t in errs:
        chk.case(t, nontrivial=False)
        chk.violation({"stage": "C", "trace": t}, "raises",
                      {"detector": "CAPA", "clause": "raises", "input_sha": sha(t.get("X"))})
    traces = [t for t in traces if "error" not in t]
    verdicts = stages.validate_traces(chk, "Trace_Capa", [t for t in traces if t["n"] <= 40], wd=wd, label=label, batch=200)
    verdicts.update(stages.validate_traces(chk, "Trace_Capa", [t for t in traces if t["n"] > 40], wd=wd, label=label + "-long", batch=2))
    for tr in traces:
        v = verdicts.get(tr["id"])
        key = sha([tr[k] for k in ("n", "p", "m", "mx", "ca", "cb", "pa", "pb", "S")])
        chk.case({k: tr[k] for k in tr if k not in ("S", "X")}, nontrivial=len(tr["rows"]) > 0, key=key)
        if v is None or v == "ok":
            continue
        if v.startswith("skip:"):
            chk.extra["skipped_traces"] = chk.extra.get("skipped_traces", 0) + 1
            continue
        clause = v.split(":", 1)[1]
        chk.violation({"stage": "C", "trace": tr, "verdict": v}, clause,
                      {"detector": "CAPA", "input_sha": key, "clause": clause})


def replay(body) -> int:
    rec = body["case"]
    if rec.get("stage") == "B":
        fails, _, _ = replay_case(rec["case"])
        for clause, obs in fails:
            print("still failing:", clause, obs)
        return 1 if fails else 0
    if rec.get("stage") == "C" and "verdict" in rec:
        chk = Check(PROP, "quick")
        with Workdir(PROP) as wd:
            v = stages.validate_traces(chk, "Trace_Capa", [rec["trace"]], wd=wd, label="replay")
        print(v)
        return 0 if all(x == "ok" for x in v.values()) else 1
    print(rec)
    return 1
