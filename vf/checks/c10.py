"""C10 -- results depend only on hyper-parameters, training data and the input.

Stage A  TLC: Lifecycle.tla -- every history (set_params / clone / fit / update / predict / transform /
         transform_scores on two detectors, fit / evaluate on their scorer objects, four datasets of
         different n and p, scorer object shared or private, fit tuning or not) up to MaxLen: what
         each call returns through the hidden state (scores attribute, in-place refitted scorer,
         fitted attributes) is the term of (hyper-parameters, training data, argument).
Stage B  TLC emits the histories with the expected term per step; the harness executes each on
         real objects (several detector pairs per history) and compares every result with a FRESH
         object built from the term alone; hyper-parameters and input frames are compared before and
         after every call.
"""

from __future__ import annotations

import copy
import pickle
from concurrent.futures import ProcessPoolExecutor

import numpy as np
import pandas as pd

from .. import stages
from ..common import Check, sha
from ..tlc import Workdir

PROP = "C10"


def datasets():
    rng = np.random.default_rng(7)

    def mk(n, p, start, shift_at, seed):
        r = np.random.default_rng(seed)
        X = r.integers(-2, 3, size=(n, p)).astype(float)
        X[shift_at:] += 6.0
        X[n // 4] += 9.0
        return pd.DataFrame(X, index=pd.RangeIndex(start, start + n), columns=[f"v{j}" for j in range(p)])

    # A2 has EXACTLY A's index and shape but other values: anything remembered under the index / shape of an earlier input
    # (seeded changes C08-d, C10-e: score caches keyed on X.index) is hit by a history predict(A); predict(A2).
    # C overlaps both partially (labels 8..16); appended / disjoint batches are the subject of UpdateMerge.tla.
    return {"A": mk(12, 1, 0, 7, 1), "B": mk(16, 2, 0, 5, 2), "C": mk(9, 1, 8, 4, 3), "A2": mk(12, 1, 0, 3, 4)}


def combined(train, data):
    """The specification's definition of the training data after fit + updates: later datasets
    override earlier ones by index label; rows ordered by label."""
    cur = data[train[0]].copy()
    for name in train[1:]:
        new = data[name]
        cur = pd.concat([cur[~cur.index.isin(new.index)], new]).sort_index()
    return cur


def pairs():
    """(name, tunes, shareable, factory) -- factory(shared_scorer or None) -> {slot: (cls, base params, p1, p2, scorer kw)}"""
    from skchange.anomaly_detectors import CAPA, MVCAPA, CircularBinarySegmentation, StatThresholdAnomaliser
    from skchange.change_detectors import PELT, MovingWindow, SeededBinarySegmentation
    from skchange.change_scores import CUSUM
    from skchange.costs import GaussianCovCost, GaussianVarCost, L2Cost

    return [
        dict(name="PELT+MovingWindow/L2Cost", tunes="none", shareable=True, scorer=lambda: L2Cost(), cuts=[[0, 4], [2, 7]],
             d1=(PELT, "cost", dict(min_segment_length=1, penalty_scale=0.3), dict(min_segment_length=2, penalty_scale=1.0)),
             d2=(MovingWindow, "change_score", dict(bandwidth=2, threshold_scale=0.4), dict(bandwidth=3, threshold_scale=1.0))),
        dict(name="Seeded+Circular/L2Cost", tunes="none", shareable=True, scorer=lambda: L2Cost(), cuts=[[1, 5], [0, 9]],
             d1=(SeededBinarySegmentation, "change_score", dict(min_segment_length=1, max_interval_length=6, threshold_scale=0.5),
                 dict(min_segment_length=2, max_interval_length=12, threshold_scale=1.0)),
             d2=(CircularBinarySegmentation, "anomaly_score", dict(min_segment_length=1, max_interval_length=6, threshold_scale=0.3),
                 dict(min_segment_length=2, max_interval_length=8, threshold_scale=0.6))),
        dict(name="CAPA+MVCAPA/L2Cost(0)", tunes="none", shareable=True, scorer=lambda: L2Cost(param=0.0), cuts=[[0, 3], [4, 9]],
             d1=(CAPA, "collective_saving", dict(min_segment_length=2, max_segment_length=6, collective_penalty_scale=0.3, point_penalty_scale=0.3),
                 dict(min_segment_length=3, max_segment_length=20, collective_penalty_scale=1.0, point_penalty_scale=1.0)),
             d2=(MVCAPA, "collective_saving", dict(min_segment_length=2, max_segment_length=6, collective_penalty="combined", collective_penalty_scale=0.3,
                                                   point_penalty_scale=0.3),
                 dict(min_segment_length=2, max_segment_length=4, collective_penalty="sparse", collective_penalty_scale=0.5, point_penalty_scale=0.5))),
        dict(name="tuned MovingWindow+tuned Seeded/CUSUM", tunes="both", shareable=True, scorer=lambda: CUSUM(), cuts=[[0, 2, 5], [3, 6, 9]],
             d1=(MovingWindow, "change_score", dict(bandwidth=2, threshold_scale=None, level=0.3), dict(bandwidth=3, threshold_scale=None, level=0.1)),
             d2=(SeededBinarySegmentation, "change_score", dict(min_segment_length=1, max_interval_length=6, threshold_scale=None, level=0.3),
                 dict(min_segment_length=2, max_interval_length=10, threshold_scale=None, level=0.2))),
        dict(name="tuned Circular+PELT/L2Cost", tunes="d1", shareable=True, scorer=lambda: L2Cost(), cuts=[[0, 4], [2, 9]],
             d1=(CircularBinarySegmentation, "anomaly_score", dict(min_segment_length=1, max_interval_length=6, threshold_scale=None, level=0.3),
                 dict(min_segment_length=2, max_interval_length=8, threshold_scale=None, level=0.2)),
             d2=(PELT, "cost", dict(min_segment_length=1, penalty_scale=0.2), dict(min_segment_length=3, penalty_scale=0.5))),
        dict(name="CAPA+PELT/GaussianCovCost((0.5,1.5))", tunes="none", shareable=True, scorer=lambda: GaussianCovCost(param=(0.5, 1.5)),
             cuts=[[0, 4], [2, 9]],       # fixed NON-ZERO mean: a kernel that centres in place would corrupt data and later calls
             d1=(CAPA, "collective_saving", dict(min_segment_length=3, max_segment_length=8, collective_penalty_scale=0.3, point_penalty_scale=0.5),
                 dict(min_segment_length=4, max_segment_length=20, collective_penalty_scale=1.0, point_penalty_scale=1.0)),
             d2=(PELT, "cost", dict(min_segment_length=3, penalty_scale=0.2), dict(min_segment_length=4, penalty_scale=0.5))),
        # private scorers only: the two parameter sets differ in a NESTED scorer hyper-parameter, set through
        # set_params(collective_saving__param=...) -- the fresh object is constructed with that value directly
        dict(name="CAPA+MVCAPA/nested scorer parameter", tunes="none", shareable=False, private_only=True,
             scorer=lambda: L2Cost(param=0.0), cuts=[[0, 3], [4, 9]],
             d1=(CAPA, "collective_saving", dict(min_segment_length=2, max_segment_length=6, collective_penalty_scale=0.3, point_penalty_scale=0.3,
                                                 collective_saving__param=0.0),
                 dict(min_segment_length=2, max_segment_length=6, collective_penalty_scale=0.3, point_penalty_scale=0.3, collective_saving__param=2.0)),
             d2=(MVCAPA, "collective_saving", dict(min_segment_length=2, max_segment_length=6, collective_penalty_scale=0.3, point_penalty_scale=0.3,
                                                   collective_saving__param=0.0),
                 dict(min_segment_length=3, max_segment_length=8, collective_penalty_scale=0.3, point_penalty_scale=0.3, collective_saving__param=-1.5))),
        dict(name="Anomaliser(PELT)+PELT", tunes="none", shareable=False, scorer=lambda: L2Cost(), cuts=[[0, 4], [2, 9]],
             d1=("anomaliser", "cost", dict(stat_lower=-1.0, stat_upper=1.0), dict(stat_lower=-3.0, stat_upper=2.0)),
             d2=(PELT, "cost", dict(min_segment_length=1, penalty_scale=0.2), dict(min_segment_length=3, penalty_scale=0.5))),
        # a per-column Gaussian cost (two prefix-sum tables): datasets A and A2 have the SAME shape, so a fitted table that is
        # wrongly kept between fits of equal shape shows here
        dict(name="MovingWindow+Circular/GaussianVarCost", tunes="none", shareable=True, scorer=lambda: GaussianVarCost(), cuts=[[0, 4], [2, 9]],
             d1=(MovingWindow, "change_score", dict(bandwidth=2, threshold_scale=0.4), dict(bandwidth=3, threshold_scale=1.0)),
             d2=(CircularBinarySegmentation, "anomaly_score", dict(min_segment_length=2, max_interval_length=6, threshold_scale=0.3),
                 dict(min_segment_length=2, max_interval_length=8, threshold_scale=0.6))),
        # the anomaliser d1 is given the user's OWN detector object d2 as hyper-parameter: it must fit a clone, so d2 stays
        # exactly what its own history made it (and d1 is unaffected by what the user does with d2).  d2's two parameter
        # sets are equal, so that set_params on d2 never changes what d1 would clone.
        dict(name="Anomaliser wrapping the user's PELT object + that PELT", tunes="none", shareable=False, wraps_d2=True,
             scorer=lambda: L2Cost(), cuts=[[0, 4], [2, 9]],
             d1=("anomaliser", "cost", dict(stat_lower=-1.0, stat_upper=1.0), dict(stat_lower=-3.0, stat_upper=2.0)),
             d2=(PELT, "cost", dict(min_segment_length=1, penalty_scale=0.3), dict(min_segment_length=1, penalty_scale=0.3))),
    ]


def _check_pairs():
    """set_params(p) only sets the keys of p: the model's "configuration = p" needs both sets to have the same keys
    (a history set_params(p2), set_params(p1) would otherwise leave a p2 value behind -- a false alarm of this harness
    found by a simulated history of length 6 under seed 3)."""
    for pr in pairs():
        for d in ("d1", "d2"):
            assert set(pr[d][2]) == set(pr[d][3]), (pr["name"], d)


def build(spec, params, scorer, wrapped=None):
    from skchange.anomaly_detectors import StatThresholdAnomaliser
    from skchange.change_detectors import PELT

    cls, kw, p1, p2 = spec
    if cls == "anomaliser":
        inner = wrapped if wrapped is not None else PELT(cost=scorer, min_segment_length=1, penalty_scale=0.3)
        return StatThresholdAnomaliser(inner, **params)
    plain = {k: v for k, v in params.items() if "__" not in k}
    nested = {k.split("__", 1)[1]: v for k, v in params.items() if "__" in k}
    if nested:  # construct the scorer WITH the nested value (the fresh object never goes through set_params)
        scorer = scorer.clone().set_params(**nested) if False else type(scorer)(**{**scorer.get_params(deep=False), **nested})
    return cls(**{kw: scorer}, **plain)


def canon(obj):
    if isinstance(obj, pd.DataFrame):
        cols = []
        for c in obj.columns:
            col = obj[c]
            if isinstance(col.dtype, pd.IntervalDtype):
                cols.append((str(c), [(int(i.left), int(i.right), i.closed) for i in col]))
            else:
                cols.append((str(c), [np.asarray(v).tolist() if isinstance(v, np.ndarray) else (v.item() if hasattr(v, "item") else v) for v in col]))
        return ("DataFrame", [str(i) for i in obj.index], cols)
    if isinstance(obj, pd.Series):
        return ("Series", [str(i) for i in obj.index], [v.item() if hasattr(v, "item") else v for v in obj])
    if isinstance(obj, np.ndarray):
        return ("ndarray", obj.tolist())
    return repr(obj)


def run_history(args):
    """Execute one abstract history on one detector pair. Returns (failures, steps_run)."""
    import warnings

    warnings.filterwarnings("ignore")
    from sktime.exceptions import NotFittedError

    case, pi = args
    pair = pairs()[pi]
    data = datasets()
    pristine = {k: v.copy(deep=True) for k, v in data.items()}
    shared = case["sharing"] == "shared"
    scorers = {"c0": pair["scorer"](), "c1": pair["scorer"](), "c2": pair["scorer"]()}
    cost_of = {"d1": "c0" if shared else "c1", "d2": "c0" if shared else "c2"}
    pname = {"d1": "p1", "d2": "p1"}
    objs = {"d2": build(pair["d2"], pair["d2"][2], scorers[cost_of["d2"]])}
    objs["d1"] = build(pair["d1"], pair["d1"][2], scorers[cost_of["d1"]], wrapped=objs["d2"] if pair.get("wraps_d2") else None)
    spec_of = {"d1": pair["d1"], "d2": pair["d2"]}
    fails = []
    memo = {}

    def expected(term):
        """Fresh object built from the term alone."""
        if term.get("m") == "evaluate":
            key = ("evaluate", tuple(term["data"]))
            if key not in memo:
                memo[key] = canon(pair["scorer"]().fit(combined(term["data"], data)).evaluate(np.array(pair["cuts"])))
            return memo[key]
        key = (term["m"], term["_slot_spec"], term["ps"], tuple(term["train"]), tuple(term["arg"]))
        if key not in memo:
            spec = spec_of[term["_slot"]]
            fresh = build(spec, spec[2] if term["ps"] == "p1" else spec[3], pair["scorer"]())
            fresh.fit(combined(term["train"], data))
            try:
                memo[key] = canon(getattr(fresh, term["m"])(data[term["arg"][0]].copy(deep=True)))
            except Exception as e:  # the fresh object decides: an error class is a result too
                memo[key] = ("raises", type(e).__name__)
        return memo[key]

    for k, step in enumerate(case["hist"]):
        op, obj, arg, exp = step["op"], step["obj"], step["arg"], step["exp"]
        where = {"step": k, "op": op, "obj": obj, "arg": arg, "pair": pair["name"], "sharing": case["sharing"]}
        if op.startswith("scorer_") and any(cost_of[d] == obj and spec_of[d][0] == "anomaliser" for d in objs):
            break  # the anomaliser fits a CLONE of its detector: the user's scorer is not refitted in place
        params_before = {d: repr(objs[d].get_params(deep=True)) for d in objs}
        try:
            if op == "set_params":
                spec = spec_of[obj]
                objs[obj].set_params(**(spec[2] if arg == "p1" else spec[3]))
                pname[obj] = arg
                got = "ok"
            elif op == "clone":
                o = arg
                objs[o] = objs[obj].clone()
                spec_of[o] = spec_of[obj]
                pname[o] = pname[obj]
                cost_of[o] = "c1" if o == "d1" else "c2"
                # the clone's own scorer copy (needed to address it in later scorer_* steps)
                inner = objs[o].change_detector if spec_of[o][0] == "anomaliser" else objs[o]
                scorers[cost_of[o]] = getattr(inner, spec_of[o][1])
                got = "ok"
            elif op == "deepcopy":
                objs[obj] = copy.deepcopy(objs[obj])
                cost_of[obj] = "c1" if obj == "d1" else "c2"
                inner = objs[obj].change_detector if spec_of[obj][0] == "anomaliser" else objs[obj]
                scorers[cost_of[obj]] = getattr(inner, spec_of[obj][1])
                got = "ok"
            elif op == "pickle":
                objs[obj] = pickle.loads(pickle.dumps(objs[obj]))
                cost_of[obj] = "c1" if obj == "d1" else "c2"
                inner = objs[obj].change_detector if spec_of[obj][0] == "anomaliser" else objs[obj]
                scorers[cost_of[obj]] = getattr(inner, spec_of[obj][1])
                got = "ok"
            elif op == "reset":
                objs[obj].reset()
                got = "ok"
            elif op == "fit":
                objs[obj].fit(data[arg])
                got = "ok"
            elif op == "fit_predict":
                got = canon(objs[obj].fit_predict(data[arg]))
            elif op == "fit_transform":
                got = canon(objs[obj].fit_transform(data[arg]))
            elif op == "update_predict":
                got = canon(objs[obj].update_predict(data[arg]))
            elif op == "update":
                objs[obj].update(data[arg])
                got = "ok"
            elif op in ("predict", "transform", "transform_scores"):
                got = canon(getattr(objs[obj], op)(data[arg]))
            elif op == "scorer_fit":
                scorers[obj].fit(data[arg])
                got = "ok"
            elif op == "scorer_evaluate":
                got = canon(scorers[obj].evaluate(np.array(pair["cuts"])))
            else:
                raise AssertionError(op)
        except NotFittedError:
            got = "NotFitted"
        except Exception as e:
            got = ("raises", type(e).__name__)
        # expected result
        if exp == {"m": "ok"}:
            want = "ok"
        elif exp == {"m": "NotFitted"}:
            want = "NotFitted"
        else:
            term = dict(exp)
            term["_slot"] = obj if obj in ("d1", "d2") else None
            term["_slot_spec"] = repr(spec_of[obj][0]) if obj in spec_of else None
            try:
                want = expected(term)
            except Exception as e:
                want = ("raises", type(e).__name__)
        if op in ("fit", "update", "fit_predict", "fit_transform", "update_predict") and isinstance(got, tuple) and got[0] == "raises" and got != want:
            # fit/update on data the detector legitimately rejects: the fresh object must reject it too
            spec = spec_of[obj]
            try:
                fresh = build(spec, spec[2] if pname[obj] == "p1" else spec[3], pair["scorer"]())
                fresh.fit(data[arg])
                fails.append(("fit_raises_but_fresh_object_fits", {**where, "got": got}))
            except Exception:
                pass
            break  # the abstract history assumed success; stop here
        if got != want and op == "scorer_evaluate" and step.get("alt") != exp:
            # second admitted reading: the data of the user's own last fit (detectors working on copies)
            alt = step["alt"]
            try:
                want_alt = "NotFitted" if alt == {"m": "NotFitted"} else expected(dict(alt))
            except Exception as e:
                want_alt = ("raises", type(e).__name__)
            if got == want_alt:
                continue
        if got != want:
            fails.append(("result_differs_from_fresh_object", {**where, "expected_term": exp, "got": str(got)[:300], "fresh": str(want)[:300]}))
            break
        if isinstance(got, tuple) and got[0] == "raises":
            break  # e.g. a detector without transform_scores: the model assumed a normal return; stop here
        # hyper-parameters change only through set_params / clone; inputs are never modified
        for d in objs:
            if op in ("set_params", "clone", "deepcopy", "pickle") and d in (obj, arg):
                continue
            if repr(objs[d].get_params(deep=True)) != params_before[d]:
                fails.append(("hyper_parameters_modified", {**where, "detector": d}))
        for name, frame in data.items():
            if not frame.equals(pristine[name]) or not frame.index.equals(pristine[name].index):
                fails.append(("input_data_modified", {**where, "dataset": name}))
                data[name] = pristine[name].copy(deep=True)
    return fails, len(case["hist"])


def _chunk(jobs):
    return [run_history(j) for j in jobs]


# ------------------------------------------------------------- update == fit on the combined data (UpdateMerge.tla)
UM_INVS = ["UpdateIsFitOnCombined", "LabelsOnceInOrder", "NothingLost", "NewRowsWin", "AppendIsConcatenation", "ResendReplaces"]
UM_KINDS = ("int", "offset", "step", "datetime", "period")


def um_index(labels, kind):
    """Integer labels of the model -> a pandas index of the given kind (order-preserving relabeling).  Consecutive
    labels become a RangeIndex for the integer kinds, as a user slicing a longer frame would have."""
    consecutive = all(b == a + 1 for a, b in zip(labels, labels[1:]))
    if kind in ("int", "offset", "step"):
        f = {"int": lambda l: l, "offset": lambda l: l + 1000, "step": lambda l: 3 * l}[kind]
        if consecutive:
            step = 3 if kind == "step" else 1
            return pd.RangeIndex(f(labels[0]), f(labels[-1]) + step, step)
        return pd.Index([f(l) for l in labels])
    if kind == "datetime":
        return pd.DatetimeIndex([pd.Timestamp("2021-03-01") + pd.Timedelta(days=l) for l in labels])
    return pd.PeriodIndex([pd.Period("2021-03", freq="M") + l for l in labels])


def um_frame(rows, kind):
    labels = [r[0] for r in rows]
    vals = np.array([r[1] for r in rows], dtype=float)
    return pd.DataFrame({"a": vals, "b": -vals}, index=um_index(labels, kind))


def um_replay(case):
    """A TLC-generated history fit(B1), update(B2), ... replayed into (a) a user-defined detector that records what
    _fit receives and (b) real detectors against a fresh one fitted on the combined table."""
    import warnings

    warnings.filterwarnings("ignore")
    from skchange.change_detectors import PELT, MovingWindow
    from skchange.change_detectors.base import ChangeDetector

    class Recorder(ChangeDetector):
        _tags = {"fit_is_empty": False, "capability:multivariate": True}

        def __init__(self):
            self.seen = []
            super().__init__()

        def _fit(self, X, y=None):
            self.seen.append(X.copy())
            return self

        def _predict(self, X):
            return ChangeDetector._format_sparse_output([])

    batches = [[(l, 10 * (i + 1) + l) for l in b] for i, b in enumerate(case["batches"])]
    combined = [tuple(r) for r in case["combined"]]
    fails = []
    for kind in UM_KINDS:
        tag = {"index": kind, "history": case["kind"]}
        want = um_frame(combined, kind)
        try:
            rec = Recorder().fit(um_frame(batches[0], kind))
            for b in batches[1:]:
                rec.update(um_frame(b, kind))
            got = rec.seen[-1]
            same = list(got.index) == list(want.index) and got["a"].tolist() == want["a"].tolist() and got["b"].tolist() == want["b"].tolist()
            if not same:
                fails.append(("update_is_not_fit_on_the_combined_data",
                              {**tag, "entry": "user-defined detector", "fit_received": [[str(i), float(v)] for i, v in zip(got.index, got["a"])][:12],
                               "combined": [[str(i), float(v)] for i, v in zip(want.index, want["a"])][:12]}))
        except Exception as e:
            fails.append(("raises", {**tag, "entry": "user-defined detector", "error": repr(e)[:200]}))
        if len(combined) < 4:
            continue
        for mk in (lambda: PELT(min_segment_length=1, penalty_scale=0.05), lambda: MovingWindow(bandwidth=1, threshold_scale=None, level=0.3)):
            try:
                ref = mk().fit(want)
                out_ref = canon(ref.predict(want))
            except Exception:
                continue  # the combined table itself is not acceptable to this detector
            try:
                det = mk().fit(um_frame(batches[0], kind))
                for b in batches[1:]:
                    det.update(um_frame(b, kind))
            except ValueError:
                continue  # an intermediate table may be too short for this detector: not this property
            except Exception as e:
                fails.append(("raises", {**tag, "entry": type(ref).__name__, "error": repr(e)[:200]}))
                continue
            attr = "penalty_" if hasattr(ref, "penalty_") else "threshold_"
            if float(getattr(ref, attr)) != float(getattr(det, attr)) or canon(det.predict(want)) != out_ref:
                fails.append(("update_is_not_fit_on_the_combined_data",
                              {**tag, "entry": type(ref).__name__, attr: [float(getattr(det, attr)), float(getattr(ref, attr))]}))
    return fails


def _um_chunk(cases):
    return [um_replay(c) for c in cases]


def um_record(args):
    """Code -> spec: random histories over 30 labels (far beyond the model's constants), the table _fit received last is
    validated by Trace_UpdateMerge.tla."""
    import warnings

    warnings.filterwarnings("ignore")
    from skchange.change_detectors.base import ChangeDetector

    class Recorder(ChangeDetector):
        _tags = {"fit_is_empty": False, "capability:multivariate": True}

        def __init__(self):
            self.seen = []
            super().__init__()

        def _fit(self, X, y=None):
            self.seen.append(X.copy())
            return self

        def _predict(self, X):
            return ChangeDetector._format_sparse_output([])

    seed, count = args
    rng = np.random.default_rng(seed)
    U = 30
    out = []
    for i in range(count):
        kind = str(rng.choice(UM_KINDS))
        # decode index values back to the model's integer labels
        if kind in ("int", "offset", "step"):
            f = {"int": lambda l: l, "offset": lambda l: l + 1000, "step": lambda l: 3 * l}[kind]
            back = {f(l): l for l in range(U)}
        elif kind == "datetime":
            back = {pd.Timestamp("2021-03-01") + pd.Timedelta(days=l): l for l in range(U)}
        else:
            back = {pd.Period("2021-03", freq="M") + l: l for l in range(U)}
        batches = []
        for b in range(int(rng.integers(2, 6))):
            if rng.integers(0, 2):   # a run of consecutive labels (a slice of a longer frame)
                a = int(rng.integers(0, U - 1))
                labels = list(range(a, int(rng.integers(a + 1, min(U, a + 12) + 1))))
            else:                    # any label set
                labels = sorted(int(x) for x in rng.choice(U, size=int(rng.integers(1, 10)), replace=False))
            batches.append(labels)
        rid = f"um-{seed}-{i}"
        try:
            rec = Recorder().fit(um_frame([(l, 10 * 1 + l) for l in batches[0]], kind))
            for k, b in enumerate(batches[1:], start=2):
                rec.update(um_frame([(l, 10 * k + l) for l in b], kind))
            got = rec.seen[-1]
            table = [[back[ix], int(v)] for ix, v in zip(got.index, got["a"])]
            ok_b = got["b"].tolist() == [-float(v) for v in got["a"]]
        except Exception as e:
            out.append({"id": rid, "error": repr(e)[:200], "index": kind, "batches": batches})
            continue
        out.append({"id": rid, "batches": batches, "table": table, "index": kind, "columns_consistent": bool(ok_b)})
    return out


def update_merge_stage(chk, tier, wd):
    L, mb = (4, 3) if tier == "quick" else (5, 3)
    cs = dict(L=L, MaxBatches=mb, MergeMode="code", Emit=False, NSlices=1, Slice=0)
    stages.model_check(chk, "UpdateMerge", cs, UM_INVS, wd=wd, label=f"A:update-merge-L{L}")
    cases = stages.emit_cases(chk, "UpdateMerge", cs, wd=wd, label="B:update-merge", invariants=("EmitCase",), nslices=8)
    if tier == "quick":   # all histories of two batches, a seeded third of those of three
        rng = np.random.default_rng(chk.seed)
        cases = [c for c in cases if len(c["batches"]) == 2 or rng.random() < 0.34]
    with ProcessPoolExecutor(max_workers=stages.NCPU) as ex:
        chunks = [cases[i::64] for i in range(64) if cases[i::64]]
        for chunk, ress in zip(chunks, ex.map(_um_chunk, chunks)):
            for case, fails in zip(chunk, ress):
                chk.case({"stage": "B:update-merge", **case}, nontrivial=case["kind"] != "append", key=sha(["um", case["batches"]]))
                chk.traces += 1
                for clause, obs in fails:
                    chk.violation({"stage": "B:update-merge", "um_case": case, "observed": obs}, clause,
                                  {"clause": clause, "stage": "update-merge", "index": obs.get("index"), "history": obs.get("history"),
                                   "entry": obs.get("entry")})
    # code -> spec: larger random histories validated by TLC
    count = 30 if tier == "quick" else 300
    with ProcessPoolExecutor(max_workers=stages.NCPU) as ex:
        traces = [t for part in ex.map(um_record, [(chk.seed + 100 + k, count) for k in range(16)]) for t in part]
    for t in [t for t in traces if "error" in t]:
        chk.case(t)
        chk.violation({"stage": "C:update-merge", "trace": t}, "raises", {"clause": "raises", "stage": "update-merge", "index": t["index"]})
    traces = [t for t in traces if "error" not in t]
    verdicts = stages.validate_traces(chk, "Trace_UpdateMerge", [{k: t[k] for k in ("id", "batches", "table")} for t in traces],
                                      wd=wd, label="C:update-merge", batch=120)
    for t in traces:
        v = verdicts.get(t["id"])
        chk.case({"stage": "C:update-merge", **t}, nontrivial=True, key=sha(["umc", t["batches"], t["index"]]))
        if not t["columns_consistent"]:
            v = "fail:columns_of_a_row_separated"
        if v and v != "ok":
            clause = v.split(":", 1)[1]
            chk.violation({"stage": "C:update-merge", "trace": t, "verdict": v}, clause,
                          {"clause": clause, "stage": "update-merge", "index": t["index"]})


def run(tier: str) -> int:
    _check_pairs()
    chk = Check(PROP, tier)
    chk.rule = ("stage A: all histories up to MaxLen over an alphabet of ~70 calls (2 detectors x {set_params x2, reset, clone, deepcopy, pickle round trip, fit_predict/fit_transform/update_predict x4 datasets, "
                "fit/update x4 datasets, predict/transform/transform_scores x4 datasets} + scorer fit/evaluate), shared or "
                "private scorer object, fit tuning none/one/both; stage B: histories of length 3 (a seeded slice, all in "
                "thorough) and sampled longer ones, each executed on the compatible detector pairs out of 11 "
                "(PELT, MovingWindow, Seeded/Circular binary segmentation, CAPA, MVCAPA, StatThresholdAnomaliser).  "
                "Update-merge stage: every history fit(B1), update(B2)[, update(B3)] over ALL non-empty label sets of 0..L-1 "
                "(appended, overlapping, re-sent, interleaved, gappy) x 5 index kinds, through a user-defined detector that records "
                "what _fit receives and through PELT / tuned MovingWindow against a fresh fit on the combined table.  "
                "Non-trivial = the history contains a result-producing call after at least one other call on the shared "
                "scorer or the same detector; distinct by hash of (history, pair).")
    chk.assumptions = ["TLC/SANY and the Json module", "'the data given to the last fit' of a scorer object includes a "
                       "detector's in-place refit (the property's own anchor)", "sktime's clone/reset are exercised, not specified",
                       "bitwise-equal results are expected because the fresh object runs the same code on the same numbers"]
    with Workdir(PROP) as wd:
        update_merge_stage(chk, tier, wd)
        cases = []
        configs = [("shared", "none"), ("shared", "both"), ("shared", "d1"), ("private", "none")]
        maxlen = 3   # ~70 calls per state: 342 k histories of length <= 3 per configuration; length 4 (24 M) is sampled below
        for sharing, tunes in configs:
            cs = dict(MaxLen=maxlen, Sharing=sharing, Tunes=tunes, Leak="none", Emit=False, NSlices=1, Slice=0, EmitLen=3)
            stages.model_check(chk, "Lifecycle", cs, ["NoLeak", "UpdateIsRefit"], properties=["ParamsStable"], wd=wd,
                               label=f"A:{sharing}-{tunes}-len{maxlen}")
            nsl = 320 if tier == "quick" else 22   # the alphabet grew to ~76 calls (pickle, reset): same replay volume as before
            # thorough: 2 of 16 slices per configuration (4 of 16 with 11 pairs took more than 50 min on a loaded machine)
            sl = [chk.seed % nsl, (chk.seed + 7) % nsl] if tier == "quick" else [(chk.seed + 3 * k) % nsl for k in range(2)]
            if tier == "thorough":  # longer histories: random walks of the same actions, every invariant checked at every step
                stages.model_check(chk, "Lifecycle", dict(cs, MaxLen=8), ["NoLeak", "UpdateIsRefit"], wd=wd,
                                   label=f"A:{sharing}-{tunes}-len8-sim", simulate="num=1500", depth=10, seed=chk.seed, workers=8)
            cs3 = dict(cs, MaxLen=3)
            got = stages.emit_cases(chk, "Lifecycle", cs3, wd=wd, label=f"B:{sharing}-{tunes}-len3", invariants=("EmitHist",),
                                    nslices=nsl, slices=sl)
            cases += got
            # longer histories: TLC simulation (random walks through the same actions)
            cs6 = dict(cs, MaxLen=6, EmitLen=6)
            num = 40 if tier == "quick" else 300
            cases += stages.emit_cases(chk, "Lifecycle", cs6, wd=wd, label=f"B:{sharing}-{tunes}-len6-sim", invariants=("EmitHist", "NoLeak"),
                                       nslices=1, simulate=f"num={num}", depth=8, seed=chk.seed)
        jobs = []
        for c in cases:
            for pi, pair in enumerate(pairs()):
                if pair["tunes"] != c["tunes"]:
                    continue
                if c["sharing"] == "shared" and not pair["shareable"]:
                    continue
                if pair.get("private_only") and any(st["op"].startswith("scorer_") for st in c["hist"]):
                    continue  # the history object's scorer is replaced conceptually by set_params; keep to detector calls
                jobs.append((c, pi))
        with ProcessPoolExecutor(max_workers=stages.NCPU) as ex:
            chunks = [jobs[i::128] for i in range(128) if jobs[i::128]]
            for chunk, ress in zip(chunks, ex.map(_chunk, chunks)):
                for (case, pi), (fails, steps) in zip(chunk, ress):
                    ops = [s["op"] for s in case["hist"]]
                    nontrivial = any(o in ("predict", "transform", "transform_scores", "scorer_evaluate", "fit_predict", "fit_transform",
                                           "update_predict") for o in ops[1:])
                    chk.case({"sharing": case["sharing"], "tunes": case["tunes"], "pair": pairs()[pi]["name"],
                              "hist": [[s["op"], s["obj"], s["arg"]] for s in case["hist"]]}, nontrivial=nontrivial,
                             key=sha([case, pi]))
                    chk.traces += 1
                    for clause, obs in fails:
                        chk.violation({"stage": "B", "case": case, "pair": pi, "observed": obs}, clause,
                                      {"clause": clause, "pair": pairs()[pi]["name"], "op": obs.get("op")})
    return chk.finish()


def replay(body) -> int:
    rec = body["case"]
    if "um_case" in rec:
        fails = um_replay(rec["um_case"])
        print(fails)
        return 1 if fails else 0
    fails, _ = run_history((rec["case"], rec["pair"]))
    print(fails)
    return 1 if fails else 0
