"""C09 -- circular binary segmentation reports greedy disjoint above-threshold anomalies.

Stage A  TLC: SeededBinseg.tla (Mode = "overlaps"): the zeroing while-loop against GreedyDefs.tla.
Stage B  every TLC case replayed through greedy_anomaly_selection.
Stage C  CircularBinarySegmentation runs (table scores over all cuts; built-in scores) validated by
         Trace_Binseg.tla: candidate intervals admissible and non-empty, per-interval score/argmax are
         the maximum/arg-max over the admissible inner intervals, output is a greedy result, spacing, and
         threshold monotonicity on pairs.
"""
from ..binseg import run_check
from ..common import Check
from ..tlc import Workdir

PROP = "C09"


def run(tier: str) -> int:
    chk = Check(PROP, tier)
    with Workdir(PROP) as wd:
        run_check(chk, "overlaps", tier, wd, "CircularBinarySegmentation")
    return chk.finish()


def replay(body) -> int:
    from ..binseg import replay_greedy

    rec = body["case"]
    if rec.get("stage") == "B":
        fails, _ = replay_greedy(rec["case"])
        print(fails)
        return 1 if fails else 0
    print(rec)
    return 1
