"""C01 -- cost values equal their definition on every admissible interval.

Stage A  TLC: Costs.tla -- prefix-sum kernels (sums[e]-sums[s], n = e-s) against the direct sums
         over the rows of the slice; evaluate never changes the fitted state; every row ever
         returned over histories of batches equals the definition (BatchIndependent).
Stage B  TLC emits, for every lattice matrix, the exact sufficient statistics of every slice (length,
         sums, cross moments, scatter determinant).  Every built-in cost (both parameter modes,
         scalar / per-column parameters, positive-definite covariances) is fitted once per matrix
         and evaluated with batches in several orders, duplicated, singly; every returned row is
         compared with the closed form of the property applied to TLC's exact statistics.
Stage C  larger lattice data: recorded values validated by Trace_Costs.tla (squared-error values as
         exact rationals; for the Gaussian costs the recovered variance / determinant).
"""

from __future__ import annotations

import math
from concurrent.futures import ProcessPoolExecutor

import numpy as np

from .. import costparams, stages
from ..common import Check, sha
from ..costs_oracle import SINGULAR, close, cost_kinds, stat_at
from ..tlc import Workdir

PROP = "C01"
INVS = ["PrefixDefinition", "BatchIndependent", "FitStateUnchanged", "Identities"]


def consts(**kw):
    c = dict(N=4, P=1, VNeg=1, VPos=2, MaxEvals=2, EvalMode="pure", CumMode="zero_first", Emit=False, NSlices=1, Slice=0)
    c.update(kw)
    return c


# (label, constants, nslices, slices run in stage B)
STAGE = {
    "quick": [("N4-P1", consts(), 1, None), ("N3-P2", consts(N=3, P=2, MaxEvals=1), 8, [0, 1]),
              ("N5-P1", consts(N=5, P=1, VPos=1, MaxEvals=1), 1, None), ("N4-P2", consts(N=4, P=2, VPos=1, MaxEvals=1), 16, [0])],
    "thorough": [("N4-P1", consts(), 1, None), ("N3-P2", consts(N=3, P=2), 8, None), ("N5-P1", consts(N=5, P=1, MaxEvals=1), 1, None),
                 ("N4-P2", consts(N=4, P=2, MaxEvals=1), 64, list(range(16))), ("N4-P3", consts(N=4, P=3, VPos=1, VNeg=1, MaxEvals=1), 256, list(range(16))),
                 ("N6-P1", consts(N=6, P=1, VPos=1, MaxEvals=1), 1, None)],
}


def replay_case(case):
    import warnings

    warnings.filterwarnings("ignore")
    n, p = case["n"], case["p"]
    X = np.asarray(case["X"], dtype=float)
    X0 = X.copy()
    fails = []
    nontrivial = False
    for name, mk, ms_, oracle in cost_kinds(p):
        ivs = [(s, e) for s in range(n) for e in range(s + 1, n + 1) if e - s >= ms_]
        if not ivs:
            continue
        expected = {iv: oracle(stat_at(case, *iv)) for iv in ivs}
        try:
            cost = mk()
            if (n + p + len(name)) % 2:
                # the same cost object has already been fitted on and asked about OTHER data (two more rows, other
                # values): the values it returns for X afterwards are those of X
                # first data of ANOTHER shape, then data of the SAME shape as X (a stale cache keyed on the shape survives
                # only the second)
                for W in (np.vstack([X[::-1] * 2.0 + 1.0, X[:2] - 3.0]), X[::-1] * 3.0 - 1.0):
                    try:
                        cost.fit(W).evaluate(np.array([[0, W.shape[0]]]))
                    except Exception:
                        pass  # whether W is acceptable to this cost is not the point here
            cost.fit(X)
        except Exception as e:
            fails.append(("fit_raises", {"cost": name, "error": repr(e)[:200]}))
            continue
        single = [[iv] for iv in ivs]
        batches = [ivs, ivs[::-1], [ivs[0], ivs[-1], ivs[0]]] + single + [ivs]
        for batch in batches:
            good = [iv for iv in batch if expected[iv] is not SINGULAR]
            sing = [iv for iv in batch if expected[iv] is SINGULAR]
            for iv in sing:  # exactly singular covariance: documented error or a finite number
                try:
                    v = cost.evaluate(np.array([iv]))
                    if not np.all(np.isfinite(v)):
                        fails.append(("singular_slice_gives_nan_or_inf", {"cost": name, "interval": list(iv), "value": v.tolist()}))
                except RuntimeError:
                    pass
                except Exception as e:
                    fails.append(("singular_slice_wrong_error", {"cost": name, "interval": list(iv), "error": repr(e)[:200]}))
                nontrivial = True
            if not good:
                continue
            try:
                vals = cost.evaluate(np.array(good))
            except Exception as e:
                fails.append(("evaluate_raises", {"cost": name, "batch": [list(i) for i in good], "error": repr(e)[:200]}))
                break
            want_cols = 1 if name.startswith("GaussianCov") else p
            if vals.shape != (len(good), want_cols):
                fails.append(("result_shape", {"cost": name, "shape": list(vals.shape), "expected": [len(good), want_cols]}))
                break
            bad = None
            for row, iv in zip(vals, good):
                exp = expected[iv]
                if not all(math.isfinite(x) and close(float(x), float(w)) for x, w in zip(row, exp)):
                    bad = (iv, [float(x) for x in row], [float(w) for w in exp])
                    break
            if bad:
                fails.append(("value_differs_from_definition",
                              {"cost": name, "interval": list(bad[0]), "got": bad[1], "definition": bad[2],
                               "batch": [list(i) for i in good][:6], "stats": stat_at(case, *bad[0])}))
                break
        if not np.array_equal(X, X0):
            fails.append(("input_data_modified", {"cost": name}))
            X = X0.copy()
        # the same matrix recorded in a SMALL unit (u = 2^-13: exact in floating point).  The definition gives
        # u^2 * C for the squared-error cost and C + (e-s) ln u^2 per column (times p for the joint covariance) for
        # the optimal-parameter Gaussian costs; slices with a zero variance are left to the unit-scale run above
        if name in ("L2Cost()", "GaussianVarCost()", "GaussianCovCost()"):
            u = 2.0 ** -13
            good = [iv for iv in ivs if expected[iv] is not SINGULAR and np.all(np.var(X0[iv[0]:iv[1]], axis=0) > 0)]
            if good:
                try:
                    vals = mk().fit(X0 * u).evaluate(np.array(good))
                    for row, iv in zip(vals, good):
                        ln = iv[1] - iv[0]
                        if name == "L2Cost()":
                            got, exp = [float(x) / (u * u) for x in row], [float(w) for w in expected[iv]]
                        else:
                            k = p if name == "GaussianCovCost()" else 1
                            got, exp = [float(x) for x in row], [float(w) + ln * k * math.log(u * u) for w in expected[iv]]
                        if not all(math.isfinite(x) and close(x, w) for x, w in zip(got, exp)):
                            fails.append(("value_differs_from_definition",
                                          {"cost": name + " on data in the unit 2^-13", "interval": list(iv), "got": got,
                                           "definition": exp, "stats": stat_at(case, *iv)}))
                            break
                except Exception as e:
                    fails.append(("evaluate_raises", {"cost": name + " on data in the unit 2^-13", "error": repr(e)[:200]}))
    return fails, nontrivial or len({tuple(r) for r in case["X"]}) > 1


def _replay_chunk(cases):
    return [replay_case(c) for c in cases]


# ------------------------------------------------------------------------------ stage C
def pick_k(value, den):
    k = 1
    while k < 10 ** 6 and (abs(value) * k * 10 + 1) * den * 10 < 4e8:
        k *= 10
    return k


def record(args):
    import warnings

    warnings.filterwarnings("ignore")
    from skchange.anomaly_scores import L2Saving, LocalAnomalyScore, Saving
    from skchange.change_scores import CUSUM, ChangeScore
    from skchange.costs import GaussianCovCost, GaussianVarCost, L2Cost

    seed, count = args
    rng = np.random.default_rng(seed)
    out = []
    for i in range(count):
        n = int(rng.integers(3, 10))
        p = int(rng.integers(1, 4))
        sc = int(rng.choice([1, 2]))
        Xi = rng.integers(-5, 6, size=(n, p))
        if rng.integers(0, 4) == 0:
            Xi[: n // 2] = Xi[0]  # constant stretch
        X = Xi / float(sc)
        obs = []
        try:
            scorers = {"l2opt": L2Cost().fit(X), "l2fix0": L2Cost(param=0.0).fit(X), "l2sav": L2Saving().fit(X),
                       "sav2": Saving(L2Cost(param=0.0)).fit(X), "cusum": CUSUM().fit(X), "chg": ChangeScore(L2Cost()).fit(X),
                       "loc": LocalAnomalyScore(L2Cost()).fit(X), "var": GaussianVarCost().fit(X), "cov": GaussianCovCost().fit(X)}
            for _ in range(12):
                s = int(rng.integers(0, n - 1))
                e = int(rng.integers(s + 1, n + 1))
                j = int(rng.integers(0, p))
                ln = e - s
                # a random batch containing (s, e): rows must not depend on their neighbours
                others = []
                while len(others) < 2:  # other admissible rows (length >= 2 so that every cost accepts them)
                    a, b = sorted(int(x) for x in rng.choice(n + 1, size=2, replace=False))
                    if b - a >= 2:
                        others.append((a, b))
                batch = np.array(others[:1] + [(s, e)] + others[1:])
                for kind, key, den in (("l2opt", "l2opt", ln * sc * sc), ("l2fix0", "l2fix0", sc * sc), ("l2sav", "l2sav", ln * sc * sc),
                                       ("l2sav", "sav2", ln * sc * sc)):
                    v = float(scorers[key].evaluate(batch)[1, j])
                    K = pick_k(v, den)
                    obs.append([kind, [s, e], j + 1, int(round(v * K)), K])
                if ln >= 2:
                    k = int(rng.integers(s + 1, e))
                    den = ln * (k - s) * (e - k) * sc * sc
                    v1 = float(scorers["cusum"].evaluate(np.array([[s, k, e]]))[0, j]) ** 2
                    v2 = float(scorers["chg"].evaluate(np.array([[s, k, e]]))[0, j])
                    for v in (v1, v2):
                        K = pick_k(v, den)
                        obs.append(["l2chg", [s, k, e], j + 1, int(round(v * K)), K])
                    v = float(scorers["var"].evaluate(batch)[1, j])  # ln >= 2 here
                    var = math.exp((v - ln) / ln) / (2 * math.pi)
                    arg = var * ln * ln  # = LenRSS / sc^2
                    if var > 1e-12:
                        K = pick_k(arg, sc * sc)
                        obs.append(["var", [s, e], j + 1, int(round(arg * K)), K])
                    elif len({tuple(r) for r in Xi[s:e, j:j + 1].tolist()}) > 1:
                        obs.append(["var", [s, e], j + 1, 0, 1])  # floored although the data vary: will fail
                if ln >= 4:
                    a = int(rng.integers(s + 1, e - 1))
                    b = int(rng.integers(a + 1, e))
                    den = ln * (b - a) * (ln - (b - a)) * sc * sc
                    v = float(scorers["loc"].evaluate(np.array([[s, a, b, e]]))[0, j])
                    K = pick_k(v, den)
                    obs.append(["l2loc", [s, a, b, e], j + 1, int(round(v * K)), K])
                if ln >= p + 1 and sc == 1 and p <= 3:
                    try:
                        v = float(scorers["cov"].evaluate(batch[1:2])[0, 0])
                        logdet = (v - ln * p * math.log(2 * math.pi) - p * ln) / ln
                        det = math.exp(logdet) * ln ** (2 * p)
                        if det < 2e8:
                            K = pick_k(det, 1) if det < 1e6 else 1
                            obs.append(["det", [s, e], 1, int(round(det * K)), K])
                    except RuntimeError:
                        pass
        except Exception as e:
            out.append({"id": f"c-{seed}-{i}", "error": repr(e)[:300], "X": X.tolist()})
            continue
        out.append({"id": f"c-{seed}-{i}", "n": n, "p": p, "sc": sc, "X": Xi.tolist(), "obs": obs})
    return out


def run(tier: str) -> int:
    chk = Check(PROP, tier)
    chk.rule = ("stage A/B: every integer matrix with entries -1..2 (or -1..1) of the listed shapes; each is fitted once "
                "per cost kind (8 kinds for p=1, 11 for p>=2: optimal / scalar / per-column parameters, PD covariances) "
                "and evaluated with all admissible intervals in two orders, with duplicates, and singly; stage C: "
                "seeded lattice data n<=9, p<=3.  A case is one matrix; non-trivial = not all rows equal or an exactly "
                "singular slice occurs; distinct by hash of the matrix.")
    chk.assumptions = ["TLC/SANY and the Json module", "math.log applied to TLC's exact arguments (closed forms of the "
                       "property statement)", "comparison tolerance 1e-9 relative: far above prefix-sum rounding on the "
                       "lattice, far below the lattice spacing", "numba kernels run as plain Python (numba absent)"]
    with Workdir(PROP) as wd:
        costparams.stage(chk, tier, wd)   # growth: the fixed-parameter domain and its broadcast (CostParams.tla)
        cases = []
        for label, cs, nsl, slices in STAGE[tier]:
            if slices is not None:
                slices = sorted({(s + chk.seed) % nsl for s in slices})
            # large input spaces: stage A model-checks one slice of the initial states (stage B replays more)
            cs_a = cs if nsl == 1 or cs["N"] * cs["P"] <= 6 else dict(cs, NSlices=nsl, Slice=(slices or [0])[0], MaxEvals=min(cs["MaxEvals"], 1))
            stages.model_check(chk, "Costs", cs_a, INVS, wd=wd, label="A:" + label, coverage=(tier == "thorough"),
                               expect_actions=("Fit",) + (("Evaluate",) if cs_a["MaxEvals"] > 0 else ()))
            cases += stages.emit_cases(chk, "Costs", cs, wd=wd, label="B:" + label, invariants=("EmitFitted",),
                                       nslices=nsl, slices=slices)
        uniq = {}
        for c in cases:
            uniq.setdefault(sha(c["X"]), c)
        items = list(uniq.items())
        with ProcessPoolExecutor(max_workers=stages.NCPU) as ex:
            chunks = [items[i::64] for i in range(64) if items[i::64]]
            for chunk, ress in zip(chunks, ex.map(_replay_chunk, [[c for _, c in ch] for ch in chunks])):
                for (key, case), (fails, nontrivial) in zip(chunk, ress):
                    chk.case({"stage": "B", "n": case["n"], "p": case["p"], "X": case["X"],
                              "stats_of_whole": stat_at(case, 0, case["n"])}, nontrivial=nontrivial, key=key)
                    chk.traces += 1
                    for clause, obs in fails:
                        chk.violation({"stage": "B", "case": {"n": case["n"], "p": case["p"], "X": case["X"]}, "observed": obs},
                                      clause, {"cost": obs.get("cost"), "clause": clause, "input_sha": key})
        count = 30 if tier == "quick" else 500
        with ProcessPoolExecutor(max_workers=stages.NCPU) as ex:
            traces = [t for part in ex.map(record, [(chk.seed + k, count) for k in range(16)]) for t in part]
        for t in [t for t in traces if "error" in t]:
            chk.case(t)
            chk.violation({"stage": "C", "trace": t}, "raises", {"clause": "raises"})
        traces = [t for t in traces if "error" not in t]
        verdicts = stages.validate_traces(chk, "Trace_Costs", traces, wd=wd, label="C:costs", batch=120)
        for t in traces:
            v = verdicts.get(t["id"])
            chk.case({"stage": "C", "id": t["id"], "n": t["n"], "p": t["p"], "obs": t["obs"][:3]}, nontrivial=True, key=t["id"])
            if v and v != "ok":
                clause = v.split(":", 1)[1]
                chk.violation({"stage": "C", "trace": t, "verdict": v}, clause, {"clause": clause})
    return chk.finish()


def replay(body) -> int:
    print(body["case"])
    return 1
