"""C05 -- dense labels and sparse detections describe the same events for any index.

Stage A  TLC: Formats.tla -- the converters as coded (slice assignment, interval look-up, run
         detection, first/last row per label) against the set-theoretic labelling, for EVERY valid
         sparse output of length <= NMax and every index kind; RoundTrip.
Stage B  every enumerated (sparse output, expected dense) replayed through the public static
         converters and through transform() of stub detectors, for every supported index type.
Stage C  the real detectors on lattice data with planted adjacent / point / end-touching events,
         for every index type; predict / transform / dense_to_sparse recorded and validated by
         Trace_Formats.tla.
"""

from __future__ import annotations

from concurrent.futures import ProcessPoolExecutor

import numpy as np
import pandas as pd

from .. import stages
from ..common import Check, sha
from ..project import index_kinds, project_dense, project_sparse, same_index
from ..tlc import Workdir

PROP = "C05"
INVS = ["LabelAtPosition", "RoundTrip", "InverseIsDefinition", "InputsValid"]


def base_cls(kind):
    from skchange.anomaly_detectors.base import CollectiveAnomalyDetector, SubsetCollectiveAnomalyDetector
    from skchange.change_detectors.base import ChangeDetector

    return {"change": ChangeDetector, "anomaly": CollectiveAnomalyDetector,
            "subset": SubsetCollectiveAnomalyDetector}[kind]


def make_stub(kind, y):
    """A user-defined detector whose _predict returns the given sparse output."""
    Base = base_cls(kind)

    class Stub(Base):
        _tags = {"fit_is_empty": True, "capability:multivariate": True}

        def __init__(self, y=None):
            self.y = y
            super().__init__()

        def _fit(self, X, y=None):
            return self

        def _predict(self, X):
            if kind == "subset":
                return Base._format_sparse_output([(s, e, np.array(c, dtype=np.int64)) for s, e, c in self.y])
            if kind == "anomaly":
                return Base._format_sparse_output([(s, e) for s, e in self.y])
            return Base._format_sparse_output(list(self.y))

    return Stub(y=y)


def sparse_frame(kind, y):
    Base = base_cls(kind)
    if kind == "subset":
        return Base._format_sparse_output([(s, e, np.array(c, dtype=np.int64)) for s, e, c in y])
    if kind == "anomaly":
        return Base._format_sparse_output([(s, e) for s, e in y])
    return Base._format_sparse_output(list(y))


def canon_sparse(kind, rows):
    if kind == "subset":
        return [[r[0], r[1], sorted(r[2])] for r in rows]
    return [list(r) if isinstance(r, (list, tuple)) else r for r in rows]


def replay_case(case):
    kind, n, p, y, dense = case["kind"], case["n"], case["p"], case["y"], case["dense"]
    Base = base_cls(kind)
    fails = []
    yf = sparse_frame(kind, y)
    for ik, idx in index_kinds(n).items():
        for cols in (list(range(p)), [f"c{j}" for j in range(p)]):
            tag = {"index": ik, "columns": "default" if cols == list(range(p)) else "strings"}
            X = pd.DataFrame(np.zeros((n, p)), index=idx, columns=cols)
            for entry in ("static", "transform"):
                try:
                    if entry == "static":
                        d = Base.sparse_to_dense(yf, X.index, X.columns)
                    else:
                        d = make_stub(kind, y).fit(X).transform(X)
                    got = project_dense(d, kind)
                    if not same_index(d.index, X.index):
                        fails.append(("dense_index_differs_from_input_index", {**tag, "entry": entry}))
                    elif got != dense:
                        fails.append(("dense_label_at_position", {**tag, "entry": entry, "got": got, "expected": dense}))
                    else:
                        back, ok = project_sparse(Base.dense_to_sparse(d), kind)
                        if canon_sparse(kind, back) != canon_sparse(kind, y) or not ok:
                            fails.append(("round_trip", {**tag, "entry": entry, "back": back, "frame_ok": ok}))
                except Exception as e:
                    fails.append(("raises", {**tag, "entry": entry, "error": repr(e)[:200]}))
    adjacent = kind != "change" and any(y[i][1] == y[i + 1][0] for i in range(len(y) - 1))
    touching = kind != "change" and len(y) > 0 and (y[0][0] == 0 or y[-1][1] == n)
    return fails, bool(adjacent or touching or (kind == "change" and len(y) > 0))


def _replay_chunk(cases):
    import warnings

    warnings.filterwarnings("ignore")
    return [replay_case(c) for c in cases]


# ----------------------------------------------------------------------------- stage C
def record(args):
    import warnings

    warnings.filterwarnings("ignore")
    from ..zoo import detector_specs, lattice_data, min_length

    seed, count = args
    rng = np.random.default_rng(seed)
    specs = detector_specs()
    names = list(specs)
    out = []
    for i in range(count):
        name = names[int(rng.integers(0, len(names)))]
        cls, plist = specs[name]
        params = plist[int(rng.integers(0, len(plist)))]
        p = 1 if name == "StatThresholdAnomaliser" else int(rng.integers(1, 4))
        if params.get("collective_penalty") == "intermediate" and p < 2:
            p = 2
        if isinstance(params.get("cost"), object) and "GaussianVarCost" in repr(params.get("cost")):
            pass
        n = int(rng.integers(max(min_length(name, params), 2), 26))
        X = lattice_data(rng, n, p, kind=int(rng.choice([1, 2, 2, 3, 5, 6])))
        ik = str(rng.choice(list(index_kinds(n))))
        idx = index_kinds(n)[ik]
        cols = [f"v{j}" for j in range(p)] if rng.integers(0, 2) else list(range(p))
        Xf = pd.DataFrame(X, index=idx, columns=cols)
        rid = f"f-{seed}-{i}"
        try:
            det = cls(**params).fit(Xf)
            yp = det.predict(Xf)
            d = det.transform(Xf)
            back = det.dense_to_sparse(d)
        except Exception as e:
            out.append({"id": rid, "error": repr(e)[:200], "det": name, "params": repr(params), "index": ik,
                        "X": X.tolist()})
            continue
        kind = "subset" if name == "MVCAPA" else "change" if name in ("PELT", "MovingWindow", "SeededBinarySegmentation") else "anomaly"
        sp, ok = project_sparse(yp, kind)
        bk, ok2 = project_sparse(back, kind)
        out.append({"id": rid, "rec": "formats", "det": name, "params": repr(params), "index": ik, "kind": kind,
                    "n": n, "p": p, "sparse": canon_sparse(kind, sp), "dense": project_dense(d, kind),
                    "back": canon_sparse(kind, bk), "index_ok": same_index(d.index, Xf.index) and ok and ok2,
                    "X": X.tolist()})
    return out


def run(tier: str) -> int:
    chk = Check(PROP, tier)
    nmax, pmax = (6, 2) if tier == "quick" else (7, 2)   # (7, 3) has millions of subset outputs: > 40 min
    chk.rule = (f"stage A/B: every valid sparse output with n <= {nmax} (change: all changepoint sets; anomaly: all "
                f"sets of disjoint intervals; subset: n <= {nmax - 1}, p <= {pmax}, all non-empty column subsets) x "
                "8 index kinds (incl. Datetime/PeriodIndex with repeated values) x 2 column labelings x {static converter, transform of a stub detector}; stage C: "
                "7 real detectors on lattice data with planted events.  Non-trivial = the output has adjacent "
                "anomalies, an event touching 0 or n, or at least one changepoint; distinct by hash of (kind, n, p, y).")
    chk.assumptions = ["TLC/SANY and the Json module", "pandas index equality (`equals`) for the index comparison"]
    with Workdir(PROP) as wd:
        consts = dict(NMax=nmax, PMax=pmax, Lookup="position", Split="gap_or_label", Emit=False)
        stages.model_check(chk, "Formats", consts, INVS, wd=wd, label="A:all-outputs",
                           coverage=(tier == "thorough"), expect_actions=("ToDense", "ToSparse"))
        cases = stages.emit_cases(chk, "Formats", consts, wd=wd, label="B:emit", invariants=("EmitCase",))
        if tier == "quick":  # seeded subsample of the subset cases, everything else complete
            rng = np.random.default_rng(chk.seed)
            cases = [c for c in cases if c["kind"] != "subset" or rng.random() < 0.25]
        with ProcessPoolExecutor(max_workers=stages.NCPU) as ex:
            chunks = [cases[i::64] for i in range(64) if cases[i::64]]
            for chunk, ress in zip(chunks, ex.map(_replay_chunk, chunks)):
                for case, (fails, nontrivial) in zip(chunk, ress):
                    key = sha([case["kind"], case["n"], case["p"], case["y"]])
                    chk.case({"stage": "B", **case}, nontrivial=nontrivial, key=key)
                    chk.traces += 1
                    for clause, obs in fails:
                        chk.violation({"stage": "B", "case": case, "observed": obs}, clause,
                                      {"kind": case["kind"], "clause": clause, "index": obs.get("index"),
                                       "input_sha": key})
        count = 40 if tier == "quick" else 600
        with ProcessPoolExecutor(max_workers=stages.NCPU) as ex:
            traces = [t for part in ex.map(record, [(chk.seed + k, count) for k in range(16)]) for t in part]
        for t in [t for t in traces if "error" in t]:
            chk.case(t)
            chk.violation({"stage": "C", "trace": t}, "raises", {"det": t["det"], "clause": "raises", "index": t["index"]})
        traces = [t for t in traces if "error" not in t]
        slim = [{k: v for k, v in t.items() if k not in ("X", "params")} for t in traces]
        verdicts = stages.validate_traces(chk, "Trace_Formats", slim, wd=wd, label="C:formats", batch=300)
        for t in traces:
            v = verdicts.get(t["id"])
            chk.case({k: t[k] for k in t if k != "X"}, nontrivial=len(t["sparse"]) > 0,
                     key=sha([t["det"], t["sparse"], t["n"], t["index"]]))
            if v and v != "ok":
                clause = v.split(":", 1)[1]
                chk.violation({"stage": "C", "trace": t, "verdict": v}, clause,
                              {"det": t["det"], "clause": clause, "index": t["index"]})
    return chk.finish()


def replay(body) -> int:
    rec = body["case"]
    if rec.get("stage") == "B":
        fails, _ = replay_case(rec["case"])
        for f in fails:
            print("still failing:", f)
        return 1 if fails else 0
    print(rec)
    return 1
