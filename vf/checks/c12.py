"""C12 -- detections respect the model's symmetries: permutation, shift, scale, reversal.

Stage A  TLC, exact arithmetic: Costs.tla invariant Symmetries (reversal maps the slice [s,e) to
         [n-e,n-s); a per-column shift leaves every centred second moment unchanged; a scale c
         multiplies them by c^2; permuting columns permutes the statistics) for every lattice matrix;
         Pelt.tla invariant OptReversal (the optimal penalised cost of the reversed table is
         unchanged) for every table; MovingWindow.tla's Reversal is part of C08.
Stage C  pairs of runs on X and the transformed X for all scorers and detectors, related by TLC
         (Trace_Symmetry.tla): values must follow the symmetry always; discrete detections unless the
         two runs' scores agree up to rounding and only a tie decides.
"""

from __future__ import annotations

import math
from concurrent.futures import ProcessPoolExecutor

import numpy as np

from .. import stages
from ..common import Check
from ..project import project_sparse
from ..tlc import Workdir
from .c01 import consts as cost_consts
from .c02 import base_consts

PROP = "C12"


def quant(mats):
    flat = [abs(float(v)) for m in mats for row in m for v in row]
    mag = max([1.0] + flat)
    unit = mag / 2 ** 26
    return [[[int(round(float(v) / unit)) for v in row] for row in m] for m in mats], unit


def scorer_list(p):
    from skchange.anomaly_scores import L2Saving, LocalAnomalyScore, Saving
    from skchange.change_scores import CUSUM, ChangeScore
    from skchange.costs import GaussianCovCost, GaussianVarCost, L2Cost

    # (name, factory, cut arity, per_column, shift_invariant, scale_invariant)
    return [("L2Cost", lambda: L2Cost(), 2, True, True, False), ("GaussianVarCost", lambda: GaussianVarCost(), 2, True, True, False),
            ("GaussianCovCost", lambda: GaussianCovCost(), 2, False, True, False), ("L2Saving", lambda: L2Saving(), 2, True, False, False),
            ("CUSUM", lambda: CUSUM(), 3, True, True, False), ("ChangeScore(L2Cost)", lambda: ChangeScore(L2Cost()), 3, True, True, False),
            ("ChangeScore(GaussianVarCost)", lambda: ChangeScore(GaussianVarCost()), 3, True, True, True),
            ("ChangeScore(GaussianCovCost)", lambda: ChangeScore(GaussianCovCost()), 3, False, True, True),
            ("LocalAnomalyScore(L2Cost)", lambda: LocalAnomalyScore(L2Cost()), 4, True, True, False),
            ("LocalAnomalyScore(GaussianVarCost)", lambda: LocalAnomalyScore(GaussianVarCost()), 4, True, True, True)]


def detector_list():
    from skchange.anomaly_detectors import CAPA, MVCAPA, CircularBinarySegmentation, StatThresholdAnomaliser
    from skchange.change_detectors import PELT, MovingWindow, SeededBinarySegmentation
    from skchange.costs import GaussianCovCost, GaussianVarCost

    # (name, factory, kind, shift_invariant, scale_invariant, scores getter)
    return [
        ("PELT", lambda: PELT(min_segment_length=2, penalty_scale=0.3), "change", True, False),
        ("PELT(GaussianVarCost)", lambda: PELT(cost=GaussianVarCost(), min_segment_length=3, penalty_scale=0.3), "change", True, True),
        ("PELT(GaussianCovCost)", lambda: PELT(cost=GaussianCovCost(), min_segment_length=5, penalty_scale=0.3), "change", True, True),
        ("MovingWindow", lambda: MovingWindow(bandwidth=3, threshold_scale=0.5), "change", True, False),
        ("MovingWindow(GaussianVarCost)", lambda: MovingWindow(change_score=GaussianVarCost(), bandwidth=4, threshold_scale=0.5), "change", True, True),
        ("SeededBinarySegmentation", lambda: SeededBinarySegmentation(min_segment_length=2, max_interval_length=12, threshold_scale=0.5), "change", True, False),
        ("SeededBinarySegmentation(GaussianVarCost)", lambda: SeededBinarySegmentation(change_score=GaussianVarCost(), min_segment_length=3,
                                                                                         max_interval_length=14, threshold_scale=0.5), "change", True, True),
        ("CircularBinarySegmentation", lambda: CircularBinarySegmentation(min_segment_length=2, max_interval_length=10, threshold_scale=0.3), "anomaly", True, False),
        ("CircularBinarySegmentation(GaussianVarCost)", lambda: CircularBinarySegmentation(anomaly_score=GaussianVarCost(), min_segment_length=3,
                                                                                             max_interval_length=12, threshold_scale=0.3), "anomaly", True, True),
        ("CAPA", lambda: CAPA(min_segment_length=2, max_segment_length=8, collective_penalty_scale=0.3, point_penalty_scale=0.3), "anomaly", False, False),
        ("MVCAPA", lambda: MVCAPA(min_segment_length=2, max_segment_length=8, collective_penalty_scale=0.3, point_penalty_scale=0.3), "subset", False, False),
        ("MVCAPA(combined point penalty)", lambda: MVCAPA(min_segment_length=2, max_segment_length=8, collective_penalty="sparse", collective_penalty_scale=0.3,
                                                          point_penalty="combined", point_penalty_scale=0.2), "subset", False, False),
        ("MVCAPA(intermediate)", lambda: MVCAPA(min_segment_length=2, max_segment_length=6, collective_penalty="intermediate", collective_penalty_scale=0.2,
                                                point_penalty="intermediate", point_penalty_scale=0.2), "subset", False, False),
    ]


def score_table(det):
    s = getattr(det, "scores", None)
    if s is None:
        return None
    if hasattr(s, "columns"):
        return np.asarray(s["score"], dtype=float)
    return np.asarray(s, dtype=float)


def cuts_for(n, arity, ms, rng, count=10):
    out = []
    tries = 0
    while len(out) < count and tries < 500:
        tries += 1
        pts = sorted(int(x) for x in rng.choice(n + 1, size=arity, replace=False))
        d = np.diff(pts)
        if arity == 4:
            if pts[2] - pts[1] >= ms and (pts[1] - pts[0]) + (pts[3] - pts[2]) >= ms:
                out.append(pts)
        elif np.all(d >= ms):
            out.append(pts)
    return out


def record(args):
    import warnings

    warnings.filterwarnings("ignore")
    seed, count = args
    rng = np.random.default_rng(seed)
    out = []
    for i in range(count):
        n = int(rng.integers(18, 30))
        p = int(rng.integers(2, 4))
        # distinct values within every column: no zero-variance segment (the variance floor is not scale covariant)
        X = np.column_stack([rng.permutation(n) for _ in range(p)]) / 16.0
        # level shifts, a bump and a spike whose sizes have distinct dyadic fractional parts: all values within a
        # column stay DISTINCT, so no window or segment of a detector has zero variance either
        for j_ in range(int(rng.integers(1, 3))):
            k = int(rng.integers(2, n - 2))
            X[k:] += rng.integers(-3, 4, size=p) + 1.0 / (32 * (j_ + 1))
        s0 = int(rng.integers(2, n - 6))
        X[s0:s0 + 3, int(rng.integers(0, p))] += 5.0 + 1.0 / 128
        X[int(rng.integers(0, n)), int(rng.integers(0, p))] -= 7.0 + 1.0 / 256
        assert all(len(set(X[:, j_])) == n for j_ in range(p))
        # a third of the series is recorded in a SMALL unit (2^-13, exact in floating point: every ratio is preserved
        # bit by bit): variances of 1e-11 .. 1e-6 are far above the variance floor (1e-16), so every relation must hold
        # as at unit scale
        u = float(rng.choice([1.0, 1.0, 2.0 ** -13]))
        X = X * u
        perm = [int(x) for x in rng.permutation(p)]
        while perm == list(range(p)):
            perm = [int(x) for x in rng.permutation(p)]
        shift = rng.integers(-3, 4, size=p).astype(float) * u
        scale = float(rng.choice([2.0, 3.0, 0.5]))
        transforms = {"permute": X[:, perm], "shift": X + shift, "scale": X * scale, "reverse": X[::-1].copy()}
        rid = f"y-{seed}-{i}"
        # ---- scorers
        for name, mk, arity, per_col, sh_inv, sc_inv in scorer_list(p):
            ms = 1 if "L2" in name or name == "CUSUM" else (p + 1 if "Cov" in name else 2)
            cuts = cuts_for(n, arity, ms, rng)
            if "Cov" in name:
                # (nearly) singular sample covariances are C01's special case (RuntimeError or some finite number, with
                # rounding-dominated values): the symmetry relations are judged on well-conditioned slices only
                def well_conditioned(cut):
                    parts = [(cut[0], cut[-1])] + [(cut[i], cut[i + 1]) for i in range(len(cut) - 1)] if len(cut) > 2 else [(cut[0], cut[1])]
                    for a_, b_ in parts:
                        ev = np.linalg.eigvalsh(np.cov(X[a_:b_], rowvar=False, ddof=0).reshape(p, p))
                        if ev[0] <= 1e-6 * max(ev[-1], 1e-12):
                            return False
                    return True

                cuts = [c for c in cuts if well_conditioned(c)]
            if "GaussianVar" in name:
                # the variance floor (1e-16) is not scale covariant: segments with zero variance in some column are excluded,
                # as the property's own wording does (pooled surroundings of a local anomaly score included)
                def positive_variance(cut):
                    parts = [X[cut[0]:cut[-1]]] + [X[cut[i]:cut[i + 1]] for i in range(len(cut) - 1)]
                    if len(cut) == 4:
                        parts.append(np.concatenate((X[cut[0]:cut[1]], X[cut[2]:cut[3]])))
                    return all(np.all(np.var(part, axis=0) > 1e-9 * u * u) for part in parts if len(part) >= 2)

                cuts = [c for c in cuts if positive_variance(c)]
            if not cuts:
                continue
            try:
                base = mk().fit(X).evaluate(np.array(cuts))
                pairs = [("permute", mk().fit(transforms["permute"]).evaluate(np.array(cuts)), [x + 1 for x in perm] if per_col else [1])]
                if sh_inv and arity >= 3:
                    pairs.append(("shift", mk().fit(transforms["shift"]).evaluate(np.array(cuts)), list(range(1, base.shape[1] + 1))))
                if sc_inv:
                    pairs.append(("scale", mk().fit(transforms["scale"]).evaluate(np.array(cuts)), list(range(1, base.shape[1] + 1))))
                mirrored = [[n - c for c in reversed(cut)] for cut in cuts]
                pairs.append(("reverse", mk().fit(transforms["reverse"]).evaluate(np.array(mirrored)), list(range(1, base.shape[1] + 1))))
            except RuntimeError:
                continue
            except Exception as e:
                out.append({"id": f"{rid}-{name}", "error": repr(e)[:200], "what": name})
                continue
            for tname, other, pm in pairs:
                if not (np.all(np.isfinite(base)) and np.all(np.isfinite(other))):
                    continue
                (qa, qb), unit = quant([base.tolist(), other.tolist()])
                out.append({"id": f"{rid}-{name}-{tname}", "rec": "values", "what": f"{name}_{tname}", "a": qa, "b": qb, "perm": pm,
                            "rowmap": list(range(1, len(cuts) + 1)), "tol": 16, "unit": unit})
        # ---- detectors
        for name, mk, kind, sh_inv, sc_inv in detector_list():
            if "Cov" in name and n < 12:
                continue
            todo = ["permute"] + (["shift"] if sh_inv else []) + (["scale"] if sc_inv else [])
            if name.startswith("PELT"):
                todo.append("reverse")
            try:
                d0 = mk().fit(X)
                y0, ok0 = project_sparse(d0.predict(X), kind)
                t0 = score_table(d0)
            except RuntimeError:
                continue
            except Exception as e:
                out.append({"id": f"{rid}-{name}", "error": repr(e)[:200], "what": name})
                continue
            for tname in todo:
                Xt = transforms[tname]
                try:
                    d1 = mk().fit(Xt)
                    y1, ok1 = project_sparse(d1.predict(Xt), kind)
                    t1 = score_table(d1)
                except RuntimeError:
                    continue
                except Exception as e:
                    out.append({"id": f"{rid}-{name}-{tname}", "error": repr(e)[:200], "what": name})
                    continue
                if tname == "reverse":  # PELT: the optimal penalised cost is unchanged
                    (qa, qb), unit = quant([[[t0[-1]]], [[t1[-1]]]])
                    out.append({"id": f"{rid}-{name}-reverse", "rec": "values", "what": f"{name}_reverse_optimal_cost", "a": qa, "b": qb,
                                "perm": [1], "rowmap": [1], "tol": 64, "unit": unit})
                    continue
                if tname == "scale" and name.startswith("PELT"):
                    # cumulative Gaussian costs are not scale invariant: a prefix of length T gains T * p * ln(c^2)
                    m_ = d0.min_segment_length
                    T = np.arange(1, len(t0) + 1)
                    t0, t1 = t0[m_ - 1:], (t1 - T * p * 2 * math.log(scale))[m_ - 1:]
                same_scores = t0 is not None and t1 is not None and t0.shape == t1.shape and \
                    np.allclose(t0, t1, rtol=1e-9, atol=1e-9 * u * u)
                if t0 is not None and t1 is not None and t0.shape == t1.shape:
                    (qa, qb), unit = quant([[t0.tolist()], [t1.tolist()]])
                    out.append({"id": f"{rid}-{name}-{tname}-scores", "rec": "values", "what": f"{name}_{tname}_scores", "a": qa, "b": qb,
                                "perm": list(range(1, len(t0) + 1)), "rowmap": [1], "tol": 64, "unit": unit})
                differ = _norm(kind, y0, None) != _norm(kind, y1, perm if tname == "permute" else None)
                ev = lambda y: [[r[0], r[1], [c + 1 for c in r[2]]] for r in y] if kind == "subset" else y
                out.append({"id": f"{rid}-{name}-{tname}", "rec": "events", "what": f"{name}_{tname}", "kind": kind, "n": n, "reverse": False,
                            "perm": [x + 1 for x in perm] if tname == "permute" else list(range(1, p + 1)),
                            "a": ev(y0), "b": ev(y1), "tie": bool(differ and same_scores and kind != "subset")})
    return out


def _norm(kind, y, perm):
    if kind == "subset":
        return sorted((r[0], r[1], tuple(sorted((perm[c] if perm else c) for c in r[2]))) for r in y)
    return sorted(tuple(r) if isinstance(r, list) else r for r in y)


def run(tier: str) -> int:
    chk = Check(PROP, tier)
    chk.rule = ("stage A: every lattice matrix / table within the constants (exact symmetries of the statistics, OptReversal); "
                "stage C: seeded lattice data (n 18..29, p 2..3; a third of it in a small unit, 2^-13) x {column permutation, per-column shift, scale 2 / 3 / 0.5, "
                "reversal} x 10 scorers and 13 detector configurations; values always related, detections unless tied.  "
                "Non-trivial = every pair (the transformation is never the identity); distinct record ids.")
    chk.assumptions = ["TLC/SANY and the Json module", "values are compared after quantisation with a tolerance of 16..64 units of "
                       "max|value| / 2^26", "detections are not judged when the two runs' scores agree up to rounding but the "
                       "detections differ (a tie decided by rounding)", "covariance-based scorers are related on well-conditioned slices only (condition number below 1e6); scale covariance of the Gaussian costs: the logarithmic "
                       "terms cancel in change / local anomaly scores (pencil-and-paper step stated in CostsDefs.tla)"]
    with Workdir(PROP) as wd:
        for label, cs in [("N4-P1", cost_consts(MaxEvals=0)), ("N3-P2", cost_consts(N=3, P=2, MaxEvals=0))] + \
                ([] if tier == "quick" else [("N5-P1", cost_consts(N=5, P=1, MaxEvals=0)), ("N4-P2", cost_consts(N=4, P=2, VPos=1, MaxEvals=0))]):
            stages.model_check(chk, "Costs", cs, ["Symmetries"], wd=wd, label="A:stats-" + label)
        for label, cs in [("N5-M2-V1", base_consts(N=5, M=2, V=1, MaxBeta=2)), ("N4-M1-V2", base_consts(N=4, M=1, V=2, MaxBeta=2))] + \
                ([] if tier == "quick" else [("N5-M2-V2", base_consts(N=5, M=2, V=2, MaxBeta=3))]):
            stages.model_check(chk, "Pelt", cs, ["OptReversal"], wd=wd, label="A:optrev-" + label, init="InitAll")
        count = 6 if tier == "quick" else 80
        with ProcessPoolExecutor(max_workers=stages.NCPU) as ex:
            recs = [r for part in ex.map(record, [(chk.seed + k, count) for k in range(16)]) for r in part]
        for r in [r for r in recs if "error" in r]:
            chk.case(r)
            chk.violation({"stage": "C", "record": r}, "raises", {"clause": "raises", "what": r["what"]})
        recs = [r for r in recs if "error" not in r]
        slim = [{k: v for k, v in r.items() if k != "unit"} for r in recs]
        verdicts = stages.validate_traces(chk, "Trace_Symmetry", slim, wd=wd, label="C:symmetry", batch=400)
        for r in recs:
            v = verdicts.get(r["id"])
            chk.case({k: r[k] for k in r if k not in ("a", "b")} | {"a": r["a"][:2], "b": r["b"][:2]}, nontrivial=True, key=r["id"])
            if v and v.startswith("skip:"):
                chk.extra["skipped_ties"] = chk.extra.get("skipped_ties", 0) + 1
            elif v and v != "ok":
                clause = v.split(":", 1)[1]
                chk.violation({"stage": "C", "record": r, "verdict": v}, clause, {"clause": clause})
    return chk.finish()


def replay(body) -> int:
    print(body["case"])
    return 1
