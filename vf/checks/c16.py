"""C16 -- MVCAPA's affected columns are the optimal sparse subset for each anomaly.

Stage A  TLC: Capa.tla, invariant AffectedAdmitted -- every column list find_affected_components can
         produce (argsort, cumulative penalised sum, arg-max prefix; any tie order) is admitted by the
         property layer's ColsAdmit (top-k, decreasing, k maximises) -- for every table with P >= 2.
Stage B  TLC emits per interval the admitted column lists; find_affected_components is run on every
         interval of every emitted table with the same integer penalty.
Stage C  MVCAPA runs with p in 2..6 (dense / sparse / single-column patterns) -- for each reported
         anomaly the component savings are recorded from an independent saving and the sparse / point
         penalty from the public penalty functions; Trace_Capa.tla (ColsVerdict) decides, and the
         columns marked by transform are compared with predict through Formats' S2DSubset.
"""

from __future__ import annotations

import math
from concurrent.futures import ProcessPoolExecutor

import numpy as np

from .. import stages
from ..common import Check, sha
from ..tlc import Workdir
from .c03 import case_table, consts

PROP = "C16"
INVS = ["AffectedAdmitted", "TableAdmissible"]

# the column choice depends on one interval's savings vector only, so N = 1 (all vectors x all penalties)
# is the informative configuration; N = 2 adds sub-additive multi-interval tables
STAGE = {
    "quick": [("N1-P3-V3", consts(N=1, P=3, V=3, Mx=2, CAs={0, 1, 2}, PAs={1}, BetaSel="general", PBs={0}), 4, None),
              ("N1-P4-V2", consts(N=1, P=4, V=2, Mx=2, CAs={0, 1}, PAs={1}, BetaSel="general", PBs={0}), 8, [0, 1, 2, 3]),
              ("N2-P2-V2", consts(N=2, P=2, V=2, Mx=2, CAs={0, 1, 2}, PAs={1}, BetaSel="general", PBs={0}), 8, [0, 1])],
    "thorough": [("N1-P3-V3", consts(N=1, P=3, V=3, Mx=2, CAs={0, 1, 2}, PAs={1}, BetaSel="general", PBs={0}), 4, None),
                 ("N1-P4-V2", consts(N=1, P=4, V=2, Mx=2, CAs={0, 1, 2}, PAs={1}, BetaSel="general", PBs={0}), 16, None),
                 ("N1-P5-V2", consts(N=1, P=5, V=2, Mx=2, CAs={0, 1}, PAs={1}, BetaSel="general", PBs={0}), 64, list(range(8))),
                 ("N1-P6-V1", consts(N=1, P=6, V=1, Mx=2, CAs={0, 1}, PAs={1}, BetaSel="general", PBs={0}), 64, list(range(4))),
                 ("N2-P2-V2", consts(N=2, P=2, V=2, Mx=2, CAs={0, 1, 2}, PAs={1}, BetaSel="general", PBs={0}), 8, None),
                 ("N3-P2-V1", consts(N=3, P=2, V=1, Mx=3, CAs={0, 1}, PAs={1}, BetaSel="general", PBs={0}), 8, None)],
}


def replay_case(case):
    from skchange.anomaly_detectors.mvcapa import find_affected_components

    from ..doubles import TableSaving

    n, p = case["n"], case["p"]
    table = case_table(case)
    sav = TableSaving(table, p=p, size=1).fit(np.zeros((n, p)))
    adm = case["admcols"]
    fails = []
    nontrivial = False
    for s in range(n):
        row = adm[str(s)] if isinstance(adm, dict) else adm[s]
        for e in range(s + 1, n + 1):
            admitted = {tuple(x) for x in row[e - 1]}
            got = find_affected_components(sav, [(s, e)], float(case["ca"]), np.asarray(case["cb"], float))
            cols = tuple(int(c) + 1 for c in got[0][2])
            if len(admitted) > 1 or (admitted and len(next(iter(admitted))) < p):
                nontrivial = True
            if cols not in admitted:
                fails.append(("affected_columns_not_the_optimal_subset",
                              {"interval": [s, e], "savings": table[(s, e)], "alpha": case["ca"], "betas": case["cb"],
                               "got": list(cols), "admitted": sorted(admitted)}))
    return fails, nontrivial


def _replay_chunk(cases):
    out = []
    for c in cases:
        try:
            out.append(replay_case(c))
        except Exception as e:   # find_affected_components raises on a valid table: a verdict, not a crash of the check
            out.append(([("raises", {"entry": "find_affected_components", "error": f"{type(e).__name__}: {e}"[:300]})], False))
    return out


def record(args):
    import warnings

    warnings.filterwarnings("ignore")
    import pandas as pd

    from skchange.anomaly_detectors import MVCAPA
    from skchange.anomaly_detectors.mvcapa import capa_penalty_factory
    from skchange.anomaly_scores import L2Saving, Saving
    from skchange.costs import GaussianVarCost, L2Cost

    from ..project import project_dense, project_sparse

    seed, count = args
    rng = np.random.default_rng(seed)
    out = []
    for i in range(count):
        p = int(rng.integers(2, 7))
        n = int(rng.integers(6, 28))
        X = rng.integers(-2, 3, size=(n, p)) / 2.0
        # planted anomalies: dense, sparse, single column, point
        for _ in range(int(rng.integers(1, 4))):
            s = int(rng.integers(0, n - 2))
            e = int(rng.integers(s + 2, min(n, s + 8) + 1))
            k = int(rng.choice([1, 1, 2, p]))
            cols = rng.choice(p, size=min(k, p), replace=False)
            X[s:e, cols] += rng.choice([-1, 1]) * rng.integers(2, 7, size=len(cols))
        if rng.integers(0, 2):
            X[int(rng.integers(0, n)), int(rng.integers(0, p))] += 15
        which = int(rng.integers(0, 3))
        mk, name = [(lambda: L2Saving(), "L2Saving"), (lambda: Saving(L2Cost(param=0.0)), "Saving(L2Cost(0))"),
                    (lambda: Saving(GaussianVarCost(param=(0.0, 1.0))), "Saving(GaussianVarCost)")][which]
        fam = str(rng.choice(["dense", "sparse", "intermediate", "combined"]))
        pfam = str(rng.choice(["sparse", "dense"]))
        cscale = float(rng.choice([0.1, 0.3, 1.0]))
        pscale = float(rng.choice([0.1, 0.5, 1.0]))
        m = int(rng.integers(2, 4))
        rid = f"cols-{seed}-{i}"
        try:
            det = MVCAPA(collective_saving=mk(), point_saving=L2Saving(), collective_penalty=fam,
                         collective_penalty_scale=cscale, point_penalty=pfam, point_penalty_scale=pscale,
                         min_segment_length=m, max_segment_length=int(rng.integers(m, 12))).fit(X)
            y = det.predict(X)
            # `icolumns` are POSITIONS: whatever the frame's column labels (names, integers that are not the positions,
            # a re-ordered frame), transform marks the columns at those positions
            labels = [list(range(p)), [f"c{j}" for j in range(p)], list(range(1, p + 1)), [int(x) for x in rng.permutation(p)]][int(rng.integers(0, 4))]
            Xf = pd.DataFrame(X, index=pd.RangeIndex(3, 3 + n), columns=labels)
            dense = det.transform(Xf)
        except Exception as e:
            out.append({"id": rid, "error": repr(e)[:200], "n": n, "p": p, "X": X.tolist()})
            continue
        rows_sp, ok = project_sparse(y, "subset")
        want = [[0] * p for _ in range(n)]
        for lab, (s, e, cols) in enumerate(rows_sp, start=1):
            for r in range(s, e):
                for c in cols:
                    if 0 <= c < p:
                        want[r][c] = lab
        dense_ok = ok and project_dense(dense, "subset") == want and list(dense.index) == list(Xf.index)
        ref, pref = mk().fit(X), L2Saving().fit(X)
        sa, sb = capa_penalty_factory("sparse")(n, p, ref.get_param_size(1), scale=cscale)
        pa, pb = capa_penalty_factory(pfam)(n, p, 1, scale=pscale)
        rows = []
        vals = [float(sa), float(pa)] + [float(x) for x in sb] + [float(x) for x in pb]
        for (s, e, cols) in rows_sp:
            point = e - s == 1
            sv = (pref if point else ref).evaluate(np.array([[s, e]]))[0]
            rows.append((cols, [float(x) for x in sv], float(pa if point else sa), [float(x) for x in (pb if point else sb)]))
            vals += [float(x) for x in sv]
        if not all(math.isfinite(v) for v in vals):
            continue
        mag = max(1.0, max(abs(v) for v in vals))
        unit = mag * (2 * p + 2) / 2 ** 29
        q = lambda v: int(round(v / unit))
        out.append({"id": rid, "rec": "cols", "n": n, "p": p, "tol": 2 * p + 4, "unit": unit, "dense_ok": bool(dense_ok),
                    "saving": name, "family": f"{fam}/{pfam}",
                    "rows": [[[c + 1 for c in cols], [q(x) for x in sv], q(al), [q(b) for b in be]] for cols, sv, al, be in rows],
                    "anomalies": [[s, e] for s, e, _ in rows_sp], "X": X.tolist()})
    return out


def run(tier: str) -> int:
    chk = Check(PROP, tier)
    chk.rule = ("stage A/B: every sub-additive table with P in 2..4 components x integer (alpha, betas); every "
                "interval of every emitted table is run through find_affected_components; stage C: MVCAPA on data "
                "with planted dense / sparse / single-column / point anomalies, p in 2..6.  Non-trivial = the optimal "
                "subset is a proper subset or several lists are admitted (ties); stage C: at least one anomaly "
                "reported.  Distinct by hash of the case.")
    chk.assumptions = ["TLC/SANY and the Json module", "stage C: rows with savings or cumulative values tied within "
                       "tol*unit are not judged (the property excludes ties by margin)",
                       "the sparse / point penalty values come from the public penalty functions (C15 judges them)"]
    with Workdir(PROP) as wd:
        cases = []
        for label, cs, nsl, slices in STAGE[tier]:
            cs_a = cs if cs["P"] <= 5 else dict(cs, NSlices=16, Slice=chk.seed % 16)     # P = 6: one slice in stage A
            stages.model_check(chk, "Capa", cs_a, INVS, wd=wd, label="A:" + label)
            if slices is not None:
                slices = sorted({(s + chk.seed) % nsl for s in slices})
            cases += stages.emit_cases(chk, "Capa", cs, wd=wd, label="B:" + label, nslices=nsl, slices=slices)
        uniq = {}
        for c in cases:
            uniq.setdefault(sha([c[k] for k in ("n", "p", "ca", "cb", "S")]), c)
        items = list(uniq.items())
        with ProcessPoolExecutor(max_workers=stages.NCPU) as ex:
            chunks = [items[i::64] for i in range(64) if items[i::64]]
            for chunk, ress in zip(chunks, ex.map(_replay_chunk, [[c for _, c in ch] for ch in chunks])):
                for (key, case), (fails, nontrivial) in zip(chunk, ress):
                    chk.case({"stage": "B", **{k: case[k] for k in ("n", "p", "ca", "cb", "S", "admcols")}},
                             nontrivial=nontrivial, key=key)
                    chk.traces += 1
                    for clause, obs in fails:
                        chk.violation({"stage": "B", "case": case, "observed": obs}, clause,
                                      {"detector": "MVCAPA", "clause": clause, "input_sha": key})
        count = 40 if tier == "quick" else 600
        with ProcessPoolExecutor(max_workers=stages.NCPU) as ex:
            traces = [t for part in ex.map(record, [(chk.seed + k, count) for k in range(16)]) for t in part]
        for t in [t for t in traces if "error" in t]:
            chk.case(t)
            chk.violation({"stage": "C", "trace": t}, "raises", {"detector": "MVCAPA", "clause": "raises"})
        traces = [t for t in traces if "error" not in t]
        slim = [{k: t[k] for k in ("id", "rec", "p", "tol", "rows", "dense_ok")} for t in traces]
        verdicts = stages.validate_traces(chk, "Trace_Capa", slim, wd=wd, label="C:cols", batch=300)
        for t in traces:
            v = verdicts.get(t["id"])
            chk.case({k: t[k] for k in t if k != "X"}, nontrivial=len(t["rows"]) > 0, key=t["id"])
            if v and v.startswith("skip:"):
                chk.extra["skipped_traces"] = chk.extra.get("skipped_traces", 0) + 1
            elif v and v != "ok":
                clause = v.split(":", 1)[1]
                chk.violation({"stage": "C", "trace": t, "verdict": v}, clause,
                              {"detector": "MVCAPA", "clause": clause, "saving": t["saving"], "family": t["family"]})
    return chk.finish()


def replay(body) -> int:
    rec = body["case"]
    if rec.get("stage") == "B":
        fails, _ = replay_case(rec["case"])
        print(fails)
        return 1 if fails else 0
    print(rec)
    return 1
