"""C02 -- PELT returns an exact minimiser of the penalised segmentation cost.

Stage A  TLC: Pelt.tla (implementation layer) refines Segmentation.tla (property layer) for every
         super-additive table / penalty / min_segment_length within the constants.
Stage B  TLC emits every case with the property layer's optimum of every prefix and the set of
         optimal segmentations; each is replayed through run_pelt and through the PELT class.
Stage C  recorded runs (random larger tables, built-in costs on lattice data) validated by
         Trace_Pelt.tla.
"""

from __future__ import annotations

import math
import os
from concurrent.futures import ProcessPoolExecutor

import numpy as np

from .. import stages
from ..common import Check, sha, touch_same_index
from ..tlc import Workdir

PROP = "C02"
INVS = ["TypeOK", "PrefixOptimal", "PruneSound", "AdmissibleOnly", "BacktrackOptimal",
        "OptRecIsOpt", "OptSeqIsOptRec", "TableAdmissible"]


def base_consts(**kw):
    c = dict(N=5, M=2, V=2, MaxBeta=3, PruneMode="delayed", TableMode="slack", Emit=False,
             NSlices=1, Slice=0)
    c.update(kw)
    return c


STAGE_A = {
    "quick": [
        ("slack-N5-M2-V1", base_consts(N=5, M=2, V=1, MaxBeta=2), INVS + ["NormalisationLemma"]),
        ("slack-N4-M1-V2", base_consts(N=4, M=1, V=2, MaxBeta=3), INVS),
        ("slack-N4-M2-V2", base_consts(N=4, M=2, V=2, MaxBeta=3), INVS),
        ("l2data-N6-M2", base_consts(N=6, M=2, V=2, MaxBeta=3, TableMode="l2data"), INVS),
        ("l2data-N6-M3", base_consts(N=6, M=3, V=2, MaxBeta=3, TableMode="l2data"), INVS),
    ],
    "thorough": [
        ("slack-N5-M2-V2", base_consts(N=5, M=2, V=2, MaxBeta=3), INVS),
        ("slack-N5-M1-V1", base_consts(N=5, M=1, V=1, MaxBeta=2), INVS),
        ("slack-N4-M1-V2", base_consts(N=4, M=1, V=2, MaxBeta=3), INVS + ["NormalisationLemma"]),
        ("slack-N4-M2-V2", base_consts(N=4, M=2, V=2, MaxBeta=3), INVS + ["NormalisationLemma"]),
        ("slack-N6-M3-V1", base_consts(N=6, M=3, V=1, MaxBeta=2), INVS),
        ("slack-N6-M2-V1", base_consts(N=6, M=2, V=1, MaxBeta=1), INVS),
        ("l2data-N7-M2", base_consts(N=7, M=2, V=2, MaxBeta=3, TableMode="l2data"), INVS),
        ("l2data-N7-M3", base_consts(N=7, M=3, V=2, MaxBeta=3, TableMode="l2data"), INVS),
        ("l2data-N8-M3", base_consts(N=8, M=3, V=2, MaxBeta=2, TableMode="l2data"), INVS),
        ("l2data-N8-M4", base_consts(N=8, M=4, V=2, MaxBeta=2, TableMode="l2data"), INVS),
    ],
}

STAGE_B = {
    "quick": [("emit-N5-M2-V2", base_consts(N=5, M=2, V=2, MaxBeta=3), 16, [0]),
              ("emit-N4-M1-V1", base_consts(N=4, M=1, V=1, MaxBeta=2), 1, None),
              ("emit-N6-M3-l2", base_consts(N=6, M=3, V=2, MaxBeta=3, TableMode="l2data"), 4, [1])],
    "thorough": [("emit-N5-M2-V2", base_consts(N=5, M=2, V=2, MaxBeta=3), 16, None),
                 ("emit-N4-M1-V2", base_consts(N=4, M=1, V=2, MaxBeta=3), 1, None),
                 ("emit-N6-M3-V1", base_consts(N=6, M=3, V=1, MaxBeta=2), 4, None),
                 ("emit-N7-M3-l2", base_consts(N=7, M=3, V=2, MaxBeta=3, TableMode="l2data"), 8, None)],
}


# ----------------------------------------------------------------------------- stage B replay
def _table(case):
    n = case["n"]
    C = case["C"]
    return {(s, e): float(_at(C, s, e)) for s in range(n) for e in range(s + 1, n + 1)}


def _at(C, s, e):
    """C is a JSON object keyed by string s (function with integer domain 0..n-1) of arrays."""
    row = C[str(s)] if isinstance(C, dict) else C[s]
    return row[e - 1]


def replay_case(case):
    """Run one TLC case through run_pelt and the PELT class; returns (failures, drift, nontrivial)."""
    from skchange.change_detectors.pelt import PELT, run_pelt

    from ..doubles import TableCost, new_log, take_log

    n, m, beta = case["n"], case["m"], case["beta"]
    table = _table(case)
    opt = case["opt"]  # property layer: optimum of prefix T at opt[T-1]
    optsegs = {tuple(x) for x in case["optsegs"]}
    fails, drift = [], []
    X = np.zeros((n, 1))
    # (a) module-level function, integer penalty: everything exact
    lid = new_log()
    scores, cps = run_pelt(X, TableCost({k: [v] for k, v in table.items()}, p=1, size=1, log_id=lid),
                           beta, m)
    log = take_log(lid)
    cps = tuple(int(c) for c in cps)
    obs = {"entry": "run_pelt", "scores": [float(x) for x in scores], "cps": list(cps)}
    for T in range(m, n + 1):
        if scores[T - 1] != opt[T - 1]:
            fails.append(("prefix_optimum", obs))
            break
    else:
        if cps not in optsegs:
            fails.append(("segmentation_not_optimal", obs))
    # implementation layer: model's candidate sets per iteration
    starts_log = [sorted({c[0] for c in call}) for call in log[1:]]
    if starts_log != case["evlog"]:
        drift.append("run_pelt evaluates other start sets than Pelt.tla's cost_eval_starts")
    # (b) the public class, two columns whose sum is the table, penalty through penalty_scale
    rng = np.random.default_rng(abs(hash((n, m, beta, len(optsegs)))) % (2 ** 32))
    p = 2
    from ..doubles import split_columns

    tab2 = {k: split_columns(int(v), p, rng) for k, v in table.items()}
    det = PELT(cost=TableCost(tab2, p=p, size=1, int_out=bool((n + m + beta) % 2)), penalty_scale=beta / (2 * p * math.log(n)),
               min_segment_length=m)      # every second case: the cost returns an int64 array
    Xp = np.zeros((n, p))
    det.fit(Xp)
    out = det.predict(Xp)
    sc = det.scores.to_numpy()
    cps2 = tuple(int(c) for c in out["ilocs"].to_numpy())
    obs2 = {"entry": "PELT", "scores": [float(x) for x in sc], "cps": list(cps2),
            "penalty_": float(det.penalty_)}
    if abs(det.penalty_ - beta) > 1e-9:
        fails.append(("penalty_value", obs2))
    elif any(abs(sc[T - 1] - opt[T - 1]) > 1e-9 for T in range(m, n + 1)):
        fails.append(("prefix_optimum", obs2))
    elif cps2 not in optsegs:
        fails.append(("segmentation_not_optimal", obs2))
    nontrivial = len(optsegs) > 1 or any(len(a) < len(b) + 1 for a, b in
                                         zip(case["evlog"][1:], case["evlog"][:-1]))
    return fails, drift, nontrivial


def _replay_chunk(cases):
    out = []
    for c in cases:
        try:
            out.append(replay_case(c))
        except Exception as e:   # the implementation raises on a valid case: a verdict, not a crash of the check
            out.append(([("raises", {"entry": "run_pelt / PELT", "error": f"{type(e).__name__}: {e}"[:300]})], [], False))
    return out


# ----------------------------------------------------------------------------- stage C traces
def _random_table(rng, n, v):
    """Super-additive integer table; every second table is NEARLY ADDITIVE (slack 0 for most intervals), the regime
    in which early starts stay competitive for late ends and pruning decisions matter most."""
    near_additive = bool(rng.integers(0, 2))
    C = {}
    for ln in range(1, n + 1):
        for s in range(0, n - ln + 1):
            e = s + ln
            if ln == 1:
                C[(s, e)] = int(rng.integers(0, 3))
            else:
                slack = (0 if rng.random() < 0.7 else int(rng.integers(0, v + 1))) if near_additive else int(rng.integers(0, v + 1))
                C[(s, e)] = max(C[(s, k)] + C[(k, e)] for k in range(s + 1, e)) + slack
    return C


def _as_rows(C, n):
    return [[int(C.get((s, e), 0)) for e in range(1, n + 1)] for s in range(n)]


def record_r1(seed, count, nmax):
    """Random exact tables, larger than TLC can enumerate; through run_pelt (odd) / PELT (even)."""
    from skchange.change_detectors.pelt import PELT, run_pelt

    from ..doubles import TableCost

    rng = np.random.default_rng(seed)
    out = []
    for i in range(count):
        n = int(rng.integers(4, nmax + 1))
        m = int(rng.integers(1, max(1, n // 2) + 1))
        if n < 2 * m:
            m = n // 2
        beta = int(rng.integers(0, 6))
        v = int(rng.integers(1, 5))
        C = _random_table(rng, n, v)
        cost = TableCost({k: [float(x)] for k, x in C.items()}, p=1, size=1, int_out=bool(rng.integers(0, 2)))
        X = np.zeros((n, 1))
        if i % 2:
            scores, cps = run_pelt(X, cost, beta, m)
            entry = "run_pelt"
        else:
            det = PELT(cost=cost, penalty_scale=beta / (2 * math.log(n)), min_segment_length=m).fit(X)
            cps = det.predict(X)["ilocs"].to_numpy()
            scores = det.scores.to_numpy()
            entry = "PELT"
        sc = [int(round(float(x))) if abs(x - round(x)) < 1e-6 else None for x in scores]
        if any(x is None for x in sc[m - 1:]):
            sc = [int(round(float(x) * 1000)) for x in scores]  # non-integer => will fail loudly
        sc = [0 if k < m - 1 else x for k, x in enumerate(sc)]
        out.append({"id": f"r1-{seed}-{i}", "regime": "R1", "entry": entry, "n": n, "m": m,
                    "beta": beta, "tol": 0, "C": _as_rows(C, n), "scores": sc,
                    "cps": [int(c) for c in cps]})
    return out


def _lattice(rng, n, p):
    kind = int(rng.integers(0, 4))
    if kind == 0:  # piecewise constant + small noise
        X = np.zeros((n, p))
        k = int(rng.integers(1, n))
        X[k:] += rng.integers(-3, 4, size=p)
        X += rng.integers(-1, 2, size=(n, p))
    elif kind == 1:
        X = rng.integers(-3, 4, size=(n, p)).astype(float)
    elif kind == 2:  # many ties / constant stretches
        X = np.repeat(rng.integers(-2, 3, size=(n // 2 + 1, p)), 2, axis=0)[:n].astype(float)
    else:
        X = rng.integers(-4, 5, size=(n, p)) / 4.0
    return X.astype(float)


def record_r3(seed, count, nmax):
    """Built-in costs on lattice data through the PELT class; the cost table is recorded from an
    independent instance of the same cost and quantised (regime R3)."""
    from skchange.change_detectors.pelt import PELT
    from skchange.costs import GaussianCovCost, GaussianVarCost, L2Cost

    rng = np.random.default_rng(seed)
    out = []
    i = 0
    attempts = 0
    while len(out) < count and attempts < count * 5:
        attempts += 1
        n = int(rng.integers(4, nmax + 1))
        p = int(rng.integers(1, 4))
        which = int(rng.integers(0, 6))
        if which == 0:
            mk, ms, name = (lambda: L2Cost()), 1, "L2Cost()"
        elif which == 1:
            mu = float(rng.integers(-1, 2))
            mk, ms, name = (lambda: L2Cost(param=mu)), 1, f"L2Cost({mu})"
        elif which == 2:
            mk, ms, name = (lambda: GaussianVarCost()), 2, "GaussianVarCost()"
        elif which == 3:
            mk, ms, name = (lambda: GaussianVarCost(param=(0.0, 1.0))), 2, "GaussianVarCost((0,1))"
        elif which == 4:
            mk, ms, name = (lambda: GaussianCovCost()), p + 1, "GaussianCovCost()"
        else:
            mk, ms, name = (lambda: GaussianCovCost(param=(0.0, 1.0))), p + 1, "GaussianCovCost((0,1))"
        if n < 2 * ms:
            continue
        m = int(rng.integers(ms, n // 2 + 1))
        scale = float(rng.choice([0.0, 0.1, 0.5, 1.0, 2.0]))
        X = _lattice(rng, n, p)
        try:
            ref = mk().fit(X)
            C = {}
            for s in range(n):
                for e in range(s + m, n + 1):
                    C[(s, e)] = float(np.sum(ref.evaluate(np.array([[s, e]]))))
            # integer-valued data go to the detector as int64 half of the time (the table is recorded from the float copy)
            Xin = X.astype(np.int64) if np.all(X == np.round(X)) and rng.integers(0, 2) else X
            det = PELT(cost=mk(), penalty_scale=scale, min_segment_length=m).fit(Xin)
            touched = bool(rng.integers(0, 2))
            if touched and rng.integers(0, 2):
                import pandas as pd

                Xin = pd.DataFrame(Xin)   # the same numbers in a frame (default index): what is remembered under X.index shows here
            if touched:
                touch_same_index(det, Xin)   # the detector has already answered for other values under the same index
                # ... and is then asked for the scores of Xin directly (transform_scores), before any predict(Xin)
                ts = det.transform_scores(Xin).to_numpy().ravel()
            cps = det.predict(Xin)["ilocs"].to_numpy()
        except RuntimeError:
            continue  # documented error: slice covariance not positive definite
        except Exception as e:   # the implementation raises on a valid call: a verdict, not a crash of the check
            out.append({"id": f"r3-{seed}-{i}", "error": f"{type(e).__name__}: {e}"[:300], "n": n, "p": p, "m": m, "cost": name,
                        "after_touch_on_same_index": touched, "X": X.tolist()})
            i += 1
            continue
        scores = ts if touched else det.scores.to_numpy()
        vals = list(C.values()) + [det.penalty_] + [float(x) for x in scores[m - 1:]]
        if not all(math.isfinite(v) for v in vals):
            continue
        mag = max(1.0, max(abs(v) for v in vals))
        unit = mag * (n + 4) / 2 ** 30
        q = lambda v: int(round(v / unit))
        out.append({"id": f"r3-{seed}-{i}", "regime": "R3", "entry": "PELT", "cost": name, "n": n,
                    "p": p, "m": m, "beta": q(det.penalty_), "tol": n + 3, "unit": unit,
                    "C": [[q(C.get((s, e), 0.0)) for e in range(1, n + 1)] for s in range(n)],
                    "scores": [0 if k < m - 1 else q(float(x)) for k, x in enumerate(scores)],
                    "cps": [int(c) for c in cps], "X": X.tolist()})
        i += 1
    return out


def record_long(seed, count):
    """Long series (n 60..250) through the PELT class with built-in costs: behaviour that only shows after many
    iterations (pruning over long horizons, accumulated back-pointers).  Validated with the sequence form OptSeq."""
    from skchange.change_detectors.pelt import PELT
    from skchange.costs import GaussianVarCost, L2Cost

    rng = np.random.default_rng(seed)
    out = []
    for i in range(count):
        n = int(rng.integers(60, 251))
        p = int(rng.integers(1, 3))
        which = int(rng.integers(0, 3))
        mk, ms, name = [(lambda: L2Cost(), 1, "L2Cost()"), (lambda: GaussianVarCost(), 2, "GaussianVarCost()"),
                        (lambda: L2Cost(param=0.0), 1, "L2Cost(0)")][which]
        m = max(ms, int(rng.choice([1, 2, 5, 10])))
        X = rng.integers(-3, 4, size=(n, p)).astype(float)
        for _ in range(int(rng.integers(0, 6))):
            k = int(rng.integers(1, n))
            X[k:] += rng.integers(-4, 5, size=p)
        if which == 1:
            X = X + rng.integers(-2, 3, size=(n, p)) / 8.0
        cuts = np.array([(s, e) for s in range(n) for e in range(s + m, n + 1)])
        vals = mk().fit(X).evaluate(cuts).sum(axis=1)
        det = PELT(cost=mk(), penalty_scale=float(rng.choice([0.3, 1.0, 2.0])), min_segment_length=m).fit(X)
        cps = det.predict(X)["ilocs"].to_numpy()
        scores = det.scores.to_numpy()
        allv = list(vals) + [det.penalty_] + [float(x) for x in scores[m - 1:]]
        if not all(math.isfinite(v) for v in allv):
            continue
        mag = max(1.0, max(abs(v) for v in allv))
        unit = mag * (n + 4) / 2 ** 30
        q = lambda v: int(round(v / unit))
        C = [[0] * n for _ in range(n)]
        for (s, e), v in zip(cuts, vals):
            C[int(s)][int(e) - 1] = q(float(v))
        out.append({"id": f"long-{seed}-{i}", "regime": "R3", "entry": "PELT", "cost": name, "n": n, "p": p, "m": m, "beta": q(det.penalty_),
                    "tol": n + 3, "unit": unit, "C": C, "scores": [0 if k < m - 1 else q(float(x)) for k, x in enumerate(scores)],
                    "cps": [int(c) for c in cps]})
    return out


def _rec(args):
    kind, seed, count, nmax = args
    import warnings

    warnings.filterwarnings("ignore")
    try:
        if kind == "long":
            return record_long(seed, count)
        return record_r1(seed, count, nmax) if kind == "r1" else record_r3(seed, count, nmax)
    except Exception as e:   # PELT raises on a valid input inside a recorder: a verdict (the batch is lost)
        return [{"id": f"{kind}-{seed}-raises", "error": f"{type(e).__name__}: {e}"[:300], "n": 0, "recorder": kind}]


# ----------------------------------------------------------------------------- driver
def run(tier: str) -> int:
    chk = Check(PROP, tier)
    chk.rule = ("stage A: every slack-generated super-additive table / data-derived table x penalty "
                "x min_segment_length within the constants (exhaustive in TLC); stage B: each emitted "
                "case replayed through run_pelt and PELT; stage C: seeded random tables and built-in "
                "costs on lattice data.  A replayed case is non-trivial when several optimal "
                "segmentations exist (tie) or pruning removed at least one start; distinct by hash "
                "of (table, penalty, min_segment_length).")
    chk.assumptions = ["TLC/SANY and the Json module", "float64 is exact on the small integer tables",
                       "R3: deviations below tol*unit (see trace record) are rounding, not defects",
                       "long series (n up to 250) are validated with the sequence form OptSeq, proved equal to OptRec by TLC on the small constants"]
    with Workdir(PROP) as wd:
        for label, consts, invs in STAGE_A[tier]:
            stages.model_check(chk, "Pelt", consts, invs, wd=wd, label="A:" + label, init="InitAll",
                               coverage=(tier == "thorough"), expect_actions=("Start", "Step", "Back"))
        if tier == "thorough":
            stages.model_check(chk, "Pelt", base_consts(N=9, M=3, V=3, MaxBeta=4), INVS[:5] + ["TableAdmissible"],
                               wd=wd, label="A:simulate-N9-M3", init="InitPick", next_="NextPick",
                               simulate="num=40", depth=60, seed=chk.seed, workers=8)   # ~1.2 s per behaviour at N = 9
            stages.model_check(chk, "Pelt", base_consts(N=10, M=2, V=3, MaxBeta=4), INVS[:5] + ["TableAdmissible"],
                               wd=wd, label="A:simulate-N10-M2", init="InitPick", next_="NextPick",
                               simulate="num=25", depth=70, seed=chk.seed + 1, workers=8)
        # stage B
        cases = []
        for label, consts, nsl, slices in STAGE_B[tier]:
            if slices is not None:
                slices = [(s + chk.seed) % nsl for s in slices]
            cases += stages.emit_cases(chk, "Pelt", consts, wd=wd, label="B:" + label, init="InitAll",
                                       nslices=nsl, slices=slices)
        # several terminal states per input (tie resolutions) -> one case per input
        uniq = {}
        for c in cases:
            uniq.setdefault(sha([c["n"], c["m"], c["beta"], c["C"]]), c)
        cases = list(uniq.values())
        with ProcessPoolExecutor(max_workers=stages.NCPU) as ex:
            chunks = [cases[i::64] for i in range(64) if cases[i::64]]
            results = ex.map(_replay_chunk, chunks)
            for chunk, ress in zip(chunks, results):
                for case, (fails, drift, nontrivial) in zip(chunk, ress):
                    key = sha([case["n"], case["m"], case["beta"], case["C"]])
                    chk.case({"stage": "B", "n": case["n"], "m": case["m"], "beta": case["beta"],
                              "C": case["C"], "opt": case["opt"], "optsegs": case["optsegs"]},
                             nontrivial=nontrivial, key=key)
                    chk.traces += 1
                    for d in drift:
                        chk.spec_drift(d)
                    for clause, obs in fails:
                        chk.violation({"stage": "B", "case": case, "observed": obs}, clause,
                                      {"detector": "PELT", "input_sha": key, "clause": clause})
        # stage C
        n_r1, n_r3 = (400, 400) if tier == "quick" else (8000, 8000)
        jobs = [("r1", chk.seed + k, n_r1 // 8, 14) for k in range(8)] + \
               [("r3", chk.seed + 100 + k, n_r3 // 8, 14) for k in range(8)] + \
               [("long", chk.seed + 200 + k, 1 if tier == "quick" else 12, 0) for k in range(8)]
        with ProcessPoolExecutor(max_workers=stages.NCPU) as ex:
            traces = [t for part in ex.map(_rec, jobs) for t in part]
        for t in [t for t in traces if "error" in t]:
            chk.case(t)
            chk.violation({"stage": "C", "trace": t}, "raises", {"detector": "PELT", "clause": "raises", "error": t["error"][:60]})
        traces = [t for t in traces if "error" not in t]
        verdicts = stages.validate_traces(chk, "Trace_Pelt", [t for t in traces if t["n"] <= 40], wd=wd, label="C:pelt", batch=250)
        verdicts.update(stages.validate_traces(chk, "Trace_Pelt", [t for t in traces if t["n"] > 40], wd=wd, label="C:pelt-long", batch=4))
        for tr in traces:
            v = verdicts.get(tr["id"])
            key = sha([tr["n"], tr["m"], tr["beta"], tr["C"]])
            chk.case({k: tr[k] for k in ("id", "regime", "entry", "n", "m", "beta", "tol", "scores", "cps")},
                     nontrivial=len(tr["cps"]) > 0, key=key)
            if v is None or v == "ok" or v.startswith("skip:"):
                if v and v.startswith("skip:"):
                    chk.extra["skipped_traces"] = chk.extra.get("skipped_traces", 0) + 1
                continue
            chk.violation({"stage": "C", "trace": tr, "verdict": v}, v.split(":", 1)[1],
                          {"detector": "PELT", "input_sha": key, "clause": v.split(":", 1)[1]})
    chk.exhaustive = False
    return chk.finish()


def replay(body) -> int:
    rec = body["case"]
    if rec.get("stage") == "B":
        fails, drift, _ = replay_case(rec["case"])
        for clause, obs in fails:
            print("still failing:", clause, obs)
        return 1 if fails else 0
    if rec.get("stage") == "C":
        chk = Check(PROP, "quick")
        with Workdir(PROP) as wd:
            v = stages.validate_traces(chk, "Trace_Pelt", [rec["trace"]], wd=wd, label="replay")
        print(v)
        return 0 if all(x == "ok" for x in v.values()) else 1
    print(rec)
    return 1
