"""C18 -- data generators are reproducible and place segments exactly where requested.

Stage A  TLC: Generators.tla -- validation chain and the segment-by-segment in-place affine transform
         (Python slice semantics) against the decision function MustRaise and the row map defined
         by segment / covering anomalies, for every argument set within the constants.
Stage B  every TLC case replayed through generate_changing_data / generate_anomalous_data: ValueError
         iff the spec says so; otherwise out[i] = a[i] + b[i] * z[i] with z the generator's own output
         for zero means / unit variances and the same seed; determinism, shape, index, columns.
         generate_alternating_data and add_linspace_outliers are replayed over their own grids
         (alternating row parameters; outlier rows admitted by OutlierAdmits).
"""

from __future__ import annotations

import json
from concurrent.futures import ProcessPoolExecutor

import numpy as np
import pandas as pd

from .. import stages, tlc
from ..common import Check, sha
from ..tlc import Workdir

PROP = "C18"
INVS = ["RaisesIffInconsistent", "PlacedWhereRequested", "NoSilentWrap"]


def replay_case(case):
    import warnings

    warnings.filterwarnings("ignore")
    from skchange.datasets.generate import generate_anomalous_data, generate_changing_data

    n, p, fn = case["n"], case["p"], case["fn"]
    fails = []
    means = [np.array(m, dtype=float) for m in case["means"]]
    variances = [np.array([float(v) ** 2 for v in s], dtype=float) for s in case["sds"]]
    for variant in ("arrays", "scalars"):
        if variant == "scalars":
            if p != 1:
                continue
            m_arg = [float(m[0]) for m in means]
            v_arg = [float(v[0]) for v in variances]
            if len(m_arg) == 1:
                m_arg = m_arg[0]
            if len(v_arg) == 1:
                v_arg = v_arg[0]
        else:
            m_arg, v_arg = means, variances
        if fn == "changing":
            pos = [int(x) for x in case["pos"]]
            call = lambda seed, m=m_arg, v=v_arg: generate_changing_data(n, list(pos), m, v, random_state=seed)
            zero = lambda seed: generate_changing_data(n, [], [np.zeros(p)], [np.ones(p)], random_state=seed)
        else:
            pos = [(int(a), int(b)) for a, b in case["pos"]]
            call = lambda seed, m=m_arg, v=v_arg: generate_anomalous_data(n, list(pos), m, v, random_state=seed)
            zero = lambda seed: generate_changing_data(n, [], [np.zeros(p)], [np.ones(p)], random_state=seed)
        tag = {"fn": fn, "variant": variant, "profile": case.get("profile"), "pos": case["pos"], "nmeans": case["nmeans"], "nvars": case["nvars"]}
        try:
            out = call(11)
            outcome = "ok"
        except ValueError:
            outcome = "ValueError"
        except Exception as e:
            outcome = type(e).__name__
        if case["must_raise"]:
            if outcome != "ValueError":
                fails.append(("inconsistent_arguments_not_rejected", {**tag, "outcome": outcome}))
            continue
        if not case["judged"]:
            continue
        if outcome != "ok":
            fails.append(("consistent_arguments_rejected", {**tag, "outcome": outcome}))
            continue
        z = zero(11).to_numpy()
        want = np.zeros((n, p))
        for i in range(n):
            for c in range(p):
                a, b = case["rowmap"][i][c]
                want[i, c] = a + b * z[i, c]
        got = out.to_numpy()
        if out.shape != (n, p) or list(out.index) != list(range(n)) or list(out.columns) != [f"var{j}" for j in range(p)]:
            fails.append(("shape_index_or_columns", {**tag, "shape": list(out.shape)}))
        elif not np.allclose(got, want, rtol=1e-12, atol=1e-12):
            bad = int(np.argwhere(~np.isclose(got, want, rtol=1e-12, atol=1e-12))[0][0])
            fails.append(("segment_not_placed_where_requested", {**tag, "row": bad, "got": got[bad].tolist(), "expected": want[bad].tolist()}))
        elif not call(11).equals(out):
            fails.append(("not_reproducible_for_the_same_seed", tag))
        elif n * p > 1 and call(12).equals(out):
            fails.append(("seed_ignored", tag))
    return fails


def _chunk(cases):
    return [replay_case(c) for c in cases]


def alternating_and_outliers(seed):
    """generate_alternating_data and add_linspace_outliers over their own grids."""
    from skchange.datasets.generate import add_linspace_outliers, generate_alternating_data, generate_changing_data

    fails, outl = [], []
    n_eval = 0
    for nseg in range(1, 5):
        for L in range(1, 5):
            for p in range(1, 4):
                for prop in (1.0, 0.5, 0.34):
                  for mean, var in ((3.0, 4.0), (0.0, 4.0), (3.0, 1.0), (0.0, 1.0)):   # incl. parameters equal to the noise's own
                    n_eval += 1
                    try:
                        out = generate_alternating_data(nseg, L, p=p, mean=mean, variance=var, affected_proportion=prop, random_state=seed)
                        n = nseg * L
                        z = generate_changing_data(n, [], [np.zeros(p)], [np.ones(p)], random_state=seed).to_numpy()
                        naff = int(np.round(p * prop))
                        want = z.copy()
                        for i in range(n):
                            if (i // L) % 2 == 1:
                                want[i, :naff] = mean + np.sqrt(var) * z[i, :naff]
                        if out.shape != (n, p) or not np.allclose(out.to_numpy(), want, rtol=1e-12, atol=1e-12):
                            fails.append(("alternating_segments_misplaced", {"n_segments": nseg, "segment_length": L, "p": p, "prop": prop, "mean": mean, "variance": var}))
                        if not generate_alternating_data(nseg, L, p=p, mean=mean, variance=var, affected_proportion=prop, random_state=seed).equals(out):
                            fails.append(("not_reproducible_for_the_same_seed", {"fn": "alternating"}))
                    except Exception as e:
                        fails.append(("raises", {"fn": "alternating", "n_segments": nseg, "segment_length": L, "p": p, "error": repr(e)[:200]}))
    for n in range(1, 41):
        for k in range(1, n + 1):
            for p in (1, 3):
                n_eval += 1
                df = pd.DataFrame(np.zeros((n, p)))
                try:
                    res = add_linspace_outliers(df.copy(), k, 5.0).to_numpy()
                    rows = [i for i in range(n) if np.all(res[i] == 5.0)]
                    other = [i for i in range(n) if not np.all(res[i] == 0.0) and i not in rows]
                    outl.append({"id": f"o-{n}-{k}-{p}", "n": n, "k": k, "rows": rows, "clean": len(other) == 0})
                except Exception as e:
                    fails.append(("raises", {"fn": "add_linspace_outliers", "n": n, "k": k, "p": p, "error": repr(e)[:200]}))
    return fails, outl, n_eval


def run(tier: str) -> int:
    chk = Check(PROP, tier)
    chk.rule = ("stage A/B: every argument set (function, up to MaxK positions in -1..n+1 incl. empty / reversed / outside, "
                "1..MaxK+2 means and variances) within the constants, for p columns, as arrays and (p = 1) as scalars; "
                "alternating data over (n_segments, segment_length, p, affected_proportion) in a grid; outlier rows for all "
                "1 <= k <= n <= 40, p in {1,3}, validated by TLC (OutlierAdmits).  Non-trivial = the arguments are "
                "inconsistent (must raise) or at least one segment/anomaly is placed; distinct by hash.")
    chk.assumptions = ["TLC/SANY and the Json module", "variances are perfect squares so that sqrt is exact",
                       "unsorted changepoints and n_outliers > n are not judged (the statement does not define them); a changepoint at 0 or a repeated one requests an empty segment"]
    with Workdir(PROP) as wd:
        cfgs = [("N4-P2", dict(N=4, P=2, MaxK=2), 1, None), ("N5-P1", dict(N=5, P=1, MaxK=2), 1, None)] if tier == "quick" else \
            [("N4-P2", dict(N=4, P=2, MaxK=2), 1, None), ("N6-P1", dict(N=6, P=1, MaxK=2), 4, None),
             ("N4-P3-K3", dict(N=4, P=3, MaxK=3), 64, list(range(8))), ("N1-P3", dict(N=1, P=3, MaxK=1), 1, None)]
        cfgs.append(("N1-P2", dict(N=1, P=2, MaxK=1), 1, None))
        cases = []
        for label, c, nsl, slices in cfgs:
            if slices is not None:
                slices = sorted({(s + chk.seed) % nsl for s in slices})
            for profile in ("distinct", "identity_mixed"):
                cs = dict(c, Check="code", Emit=False, NSlices=1, Slice=0, Profile=profile)
                stages.model_check(chk, "Generators", cs, INVS + ["FloorRowsAdmitted"], wd=wd, label=f"A:{label}-{profile}")
                cases += stages.emit_cases(chk, "Generators", dict(c, Check="code", Profile=profile), wd=wd, label=f"B:{label}-{profile}",
                                           nslices=nsl, slices=slices)
        with ProcessPoolExecutor(max_workers=stages.NCPU) as ex:
            chunks = [cases[i::64] for i in range(64) if cases[i::64]]
            for chunk, ress in zip(chunks, ex.map(_chunk, chunks)):
                for case, fails in zip(chunk, ress):
                    chk.case({k: case[k] for k in ("fn", "n", "p", "pos", "nmeans", "nvars", "must_raise", "judged")},
                             nontrivial=case["must_raise"] or (case["judged"] and len(case["pos"]) > 0), key=sha(case))
                    chk.traces += 1
                    for clause, obs in fails:
                        chk.violation({"stage": "B", "case": case, "observed": obs}, clause,
                                      {"clause": clause, "fn": case["fn"], "pos": case["pos"], "nmeans": case["nmeans"], "nvars": case["nvars"]})
        fails, outl, n_eval = alternating_and_outliers(chk.seed)
        chk.evaluations += n_eval
        for clause, obs in fails:
            chk.violation({"stage": "B", "observed": obs}, clause, {"clause": clause, **{k: obs[k] for k in ("fn", "n", "k", "p") if k in obs}})
        # outlier rows: decided by TLC (OutlierAdmits) on the recorded rows
        path = wd.file("outliers.json")
        json.dump(outl, open(path, "w"))
        module = """---- MODULE Trace_Outliers ----
EXTENDS Generators, IOUtils
Cases == JsonDeserialize(IOEnv.TRACE_FILE)
VARIABLES tid, verdict
TInit == tid = 0 /\\ verdict = "start"
TNext == /\\ tid < Len(Cases) /\\ tid' = tid + 1
         /\\ verdict' = IF ~Cases[tid + 1].clean THEN "fail:other_rows_modified"
                        ELSE IF OutlierAdmits(Cases[tid + 1].n, Cases[tid + 1].k, Cases[tid + 1].rows) THEN "ok"
                        ELSE "fail:outlier_rows_not_evenly_spaced_first_to_last"
         /\\ PrintT(<<"VERDICT", Cases[tid + 1].id, verdict'>>)
         /\\ UNCHANGED <<fn, pos, nmeans, nvars, outcome, rowmap, k, pc>>
====
"""
        cfg = tlc.cfg_text(dict(N=4, P=1, MaxK=1, Check="code", Emit=False, NSlices=1, Slice=0, Profile="distinct"), init="TInit", next_="TNext")
        cfg = cfg.replace("INIT TInit", "INIT TInitAll")
        module = module.replace("TInit == tid = 0", "TInitAll == Init /\\ pos = <<>> /\\ fn = \"changing\" /\\ nmeans = 1 /\\ nvars = 1 /\\ tid = 0")
        res = tlc.run("Trace_Outliers", cfg, workdir=wd, workers=1, env={"TRACE_FILE": path}, extra_modules={"Trace_Outliers.tla": module},
                      tag="C-outliers")
        chk.add_tlc(res, "C:outliers")
        verdicts = {p[1]: p[2] for p in res.tagged("VERDICT")}
        chk.traces += len(verdicts)
        for o in outl:
            v = verdicts.get(o["id"])
            if v is None:
                chk.machinery(f"no verdict for {o['id']}")
            elif v != "ok":
                chk.violation({"stage": "C", "outliers": o, "verdict": v}, v.split(":", 1)[1], {"clause": v.split(":", 1)[1], "n": o["n"], "k": o["k"]})
            chk.evaluations += 1
            if o["k"] > 1:
                chk.nontrivial.add(o["id"])
    return chk.finish()


def replay(body) -> int:
    rec = body["case"]
    if "case" in rec:
        f = replay_case(rec["case"])
        print(f)
        return 1 if f else 0
    print(rec)
    return 1
