"""C06 -- scores derived from costs equal their defining cost differences.

Stage A  TLC: Costs.tla invariant Identities -- in exact integer arithmetic, on every slice and split
         of every lattice matrix: CUSUM^2 = L2 change score, L2 saving = saving of the squared-error
         cost at mean 0, optimum <= every fixed parameter, splitting never increases the optimal cost
         (variance decomposition for the Gaussian costs), statistics additive over pooled rows.
Stage B  TLC's exact statistics per slice -> the three adapters over every built-in cost and over
         user-defined costs (IntL2Cost, TableCost), CUSUM and L2Saving, on ALL admissible 3- and
         4-point cuts: outputs are compared with differences of the SPECIFICATION's cost values.
Stage C  larger lattice data, recorded values validated by Trace_Costs.tla (l2chg / l2loc / l2sav).
"""

from __future__ import annotations

import math
from concurrent.futures import ProcessPoolExecutor

import numpy as np

from .. import stages
from ..common import Check, sha
from ..costs_oracle import SINGULAR, add_stats, close, cost_kinds, pooled_det, stat_at
from ..tlc import Workdir
from .c01 import consts, record

PROP = "C06"
INVS = ["Identities", "PrefixDefinition"]

STAGE = {
    "quick": [("N4-P1", consts(MaxEvals=0), 1, None), ("N3-P2", consts(N=3, P=2, MaxEvals=0), 8, [0, 1]),
              ("N5-P1", consts(N=5, P=1, VPos=1, MaxEvals=0), 1, None), ("N4-P2", consts(N=4, P=2, VPos=1, MaxEvals=0), 16, [0])],
    "thorough": [("N4-P1", consts(MaxEvals=0), 1, None), ("N3-P2", consts(N=3, P=2, MaxEvals=0), 8, None),
                 ("N5-P1", consts(N=5, P=1, MaxEvals=0), 1, None), ("N6-P1", consts(N=6, P=1, VPos=1, MaxEvals=0), 1, None),
                 ("N4-P2", consts(N=4, P=2, MaxEvals=0), 64, list(range(12))), ("N5-P2", consts(N=5, P=2, VPos=1, MaxEvals=0), 256, list(range(12)))],
}


def int_l2_cost():
    """User-defined cost: the exact integer len * S2 - S1^2 of the rows it was fitted on."""
    from skchange.costs.base import BaseCost

    class IntL2Cost(BaseCost):
        def __init__(self, param=None):
            super().__init__(param)

        def _fit(self, X, y=None):
            self.X_ = np.asarray(X, dtype=float).reshape(len(X), -1)
            return self

        def _evaluate_optim_param(self, starts, ends):
            out = np.zeros((len(starts), self.X_.shape[1]))
            for i, (s, e) in enumerate(zip(starts, ends)):
                seg = self.X_[s:e]
                out[i] = len(seg) * (seg ** 2).sum(axis=0) - seg.sum(axis=0) ** 2
            return out

    return IntL2Cost()


def scaled_int_l2_cost(param=None, scale=3):
    """User-defined cost WITH A HYPER-PARAMETER besides `param`: scale * len * (sum of squares around the optimal
    or the fixed integer mean).  Adapters that rebuild or clone the cost must carry `scale` along."""
    from skchange.costs.base import BaseCost

    class ScaledIntL2Cost(BaseCost):
        def __init__(self, param=None, scale=1):
            self.scale = scale
            super().__init__(param)

        def _fit(self, X, y=None):
            self.X_ = np.asarray(X, dtype=float).reshape(len(X), -1)
            return self

        def _evaluate_optim_param(self, starts, ends):
            out = np.zeros((len(starts), self.X_.shape[1]))
            for i, (s, e) in enumerate(zip(starts, ends)):
                seg = self.X_[s:e]
                out[i] = self.scale * (len(seg) * (seg ** 2).sum(axis=0) - seg.sum(axis=0) ** 2)
            return out

        def _evaluate_fixed_param(self, starts, ends):
            out = np.zeros((len(starts), self.X_.shape[1]))
            for i, (s, e) in enumerate(zip(starts, ends)):
                seg = self.X_[s:e]
                out[i] = self.scale * len(seg) * ((seg - self.param) ** 2).sum(axis=0)
            return out

    return ScaledIntL2Cost(param=param, scale=scale)


def replay_case(case):
    import warnings

    warnings.filterwarnings("ignore")
    from skchange.anomaly_scores import L2Saving, LocalAnomalyScore, Saving, to_local_anomaly_score, to_saving
    from skchange.change_scores import CUSUM, ChangeScore, to_change_score

    n, p = case["n"], case["p"]
    X = np.asarray(case["X"], dtype=float)
    fails = []
    st = lambda s, e: stat_at(case, s, e)
    kinds = cost_kinds(p)
    by = {k[0]: k for k in kinds}

    def used(obj, arity):
        """The same adapter object after it has been fitted on and asked about OTHER data (another shape, then the same shape with other values):
        what it returns for X afterwards must not depend on that."""
        # first data of ANOTHER shape, then data of the SAME shape as X (a stale cache keyed on the shape survives only
        # the second)
        for W in (np.vstack([X[::-1] * 2.0 + 1.0, X[:2] - 3.0]), X[::-1] * 3.0 - 1.0):
            try:
                m = W.shape[0]
                cut = {2: [0, m], 3: [0, m // 2, m], 4: [0, m // 3, m - m // 3, m]}[arity]
                obj.fit(W).evaluate(np.array([cut]))
            except Exception:
                pass  # whether W itself is acceptable to this scorer is not the point here
        return obj

    def cmp(name, cut, got, want):
        if want is None:
            return
        if len(got) != len(want) or not all(math.isfinite(g) and close(float(g), float(w), 1e-8) for g, w in zip(got, want)):
            fails.append(("score_differs_from_cost_difference", {"scorer": name, "cut": list(cut), "got": [float(g) for g in got],
                                                                 "definition": [float(w) for w in want]}))

    def diff(vals):
        if any(v is SINGULAR for v in vals):
            return None
        return [vals[0][j] - sum(v[j] for v in vals[1:]) for j in range(len(vals[0]))]

    # ---- change scores: C(s,e) - C(s,k) - C(k,e)
    for name, mk, ms, oracle in kinds:
        cuts = [(s, k, e) for s in range(n) for k in range(s + ms, n) for e in range(k + ms, n + 1)]
        if not cuts:
            continue
        try:
            sc = used(ChangeScore(mk()), 3).fit(X)
            vals = sc.evaluate(np.array(cuts))
        except RuntimeError:
            continue
        except Exception as e:
            fails.append(("raises", {"scorer": f"ChangeScore({name})", "error": repr(e)[:200]}))
            continue
        for cut, row in zip(cuts, vals):
            s, k, e = cut
            want = diff([oracle(st(s, e)), oracle(st(s, k)), oracle(st(k, e))])
            cmp(f"ChangeScore({name})", cut, row, want)
            if want is not None and "()" in name and min(row) < -1e-9:
                fails.append(("change_score_negative", {"scorer": f"ChangeScore({name})", "cut": list(cut), "got": row.tolist()}))
    # ---- CUSUM: squared CUSUM = squared-error change score
    cuts = [(s, k, e) for s in range(n) for k in range(s + 1, n) for e in range(k + 1, n + 1)]
    if cuts:
        vals = CUSUM().fit(X).evaluate(np.array(cuts))
        l2 = by["L2Cost()"][3]
        for cut, row in zip(cuts, vals):
            s, k, e = cut
            cmp("CUSUM()^2", cut, row ** 2, diff([l2(st(s, e)), l2(st(s, k)), l2(st(k, e))]))
    # ---- savings: baseline (fixed) minus optimal
    pairs = [("L2Cost(1)", "L2Cost()"), ("L2Cost(0.5)", "L2Cost()"), ("GaussianVarCost((0,1))", "GaussianVarCost()"),
             ("GaussianVarCost((1,2))", "GaussianVarCost()"), ("GaussianCovCost((0,1))", "GaussianCovCost()")]
    if p >= 2:
        pairs += [("L2Cost(per-column)", "L2Cost()"), ("GaussianVarCost(per-column)", "GaussianVarCost()"),
                  ("GaussianCovCost((mu,cov))", "GaussianCovCost()")]
    for fixed, opt in pairs:
        _, mk, ms, ofix = by[fixed]
        oopt = by[opt][3]
        ivs = [(s, e) for s in range(n) for e in range(s + ms, n + 1)]
        if not ivs:
            continue
        try:
            sv = used(Saving(mk()), 2).fit(X)
            vals = sv.evaluate(np.array(ivs))
        except RuntimeError:
            continue
        except Exception as e:
            fails.append(("raises", {"scorer": f"Saving({fixed})", "error": repr(e)[:200]}))
            continue
        for iv, row in zip(ivs, vals):
            vo = oopt(st(*iv))
            want = None if vo is SINGULAR else [a - b for a, b in zip(ofix(st(*iv)), vo)]
            cmp(f"Saving({fixed})", iv, row, want)
            if want is not None and min(row) < -1e-9:
                fails.append(("saving_negative_or_optimum_above_fixed", {"scorer": f"Saving({fixed})", "cut": list(iv), "got": row.tolist()}))
    ivs = [(s, e) for s in range(n) for e in range(s + 1, n + 1)]
    vals = L2Saving().fit(X).evaluate(np.array(ivs))
    for iv, row in zip(ivs, vals):
        s_ = st(*iv)
        cmp("L2Saving()", iv, row, [s_["s1"][j] ** 2 / s_["len"] for j in range(p)])
    # ---- local anomaly scores: C(s,e) - C(a,b) - C(pooled surroundings)
    loc_kinds = [k for k in kinds if k[0] in ("L2Cost()", "GaussianVarCost()", "GaussianCovCost()", "L2Cost(1)",
                                                "GaussianVarCost((1,2))", "GaussianCovCost((mu,cov))", "L2Cost(per-column)")]
    for name, mk, ms, oracle in loc_kinds:
        cuts = [(s, a, b, e) for s in range(n) for a in range(s + 1, n) for b in range(a + ms, n) for e in range(b + 1, n + 1)
                if (a - s) + (e - b) >= ms]
        if not cuts:
            continue
        try:
            sc = used(LocalAnomalyScore(mk()), 4).fit(X)
            vals = sc.evaluate(np.array(cuts))
        except RuntimeError:
            continue
        except Exception as e:
            fails.append(("raises", {"scorer": f"LocalAnomalyScore({name})", "error": repr(e)[:200]}))
            continue
        for cut, row in zip(cuts, vals):
            s, a, b, e = cut
            pooled = add_stats(st(s, a), st(b, e))
            pooled["det"] = pooled_det(pooled, p) if p <= 3 else -1
            want = diff([oracle(st(s, e)), oracle(st(a, b)), oracle(pooled)])
            cmp(f"LocalAnomalyScore({name})", cut, row, want)
    # ---- user-defined cost through the adapters (exact integers; pooled refit exercised)
    cuts = [(s, a, b, e) for s in range(n) for a in range(s + 1, n) for b in range(a + 1, n) for e in range(b + 1, n + 1)]
    if cuts:
        vals = LocalAnomalyScore(int_l2_cost()).fit(X).evaluate(np.array(cuts))
        lr = lambda s_: [s_["len"] * s_["s2"][j][j] - s_["s1"][j] ** 2 for j in range(p)]
        for cut, row in zip(cuts, vals):
            s, a, b, e = cut
            pooled = add_stats(st(s, a), st(b, e))
            want = [x - y - z for x, y, z in zip(lr(st(s, e)), lr(st(a, b)), lr(pooled))]
            if [float(v) for v in row] != [float(w) for w in want]:
                fails.append(("score_differs_from_cost_difference", {"scorer": "LocalAnomalyScore(IntL2Cost)", "cut": list(cut),
                                                                     "got": row.tolist(), "definition": want}))
        c3 = [(s, k, e) for s in range(n) for k in range(s + 1, n) for e in range(k + 1, n + 1)]
        vals = ChangeScore(int_l2_cost()).fit(X).evaluate(np.array(c3))
        for cut, row in zip(c3, vals):
            s, k, e = cut
            want = [x - y - z for x, y, z in zip(lr(st(s, e)), lr(st(s, k)), lr(st(k, e)))]
            if [float(v) for v in row] != [float(w) for w in want]:
                fails.append(("score_differs_from_cost_difference", {"scorer": "ChangeScore(IntL2Cost)", "cut": list(cut),
                                                                     "got": row.tolist(), "definition": want}))
    # ---- user-defined cost with a hyper-parameter besides `param` (scale = 3) through all three adapters
    lr3 = lambda s_: [3 * (s_["len"] * s_["s2"][j][j] - s_["s1"][j] ** 2) for j in range(p)]
    fx3 = lambda s_, mu: [3 * s_["len"] * (s_["s2"][j][j] - 2 * mu * s_["s1"][j] + s_["len"] * mu * mu) for j in range(p)]
    ivs = [(s, e) for s in range(n) for e in range(s + 1, n + 1)]
    try:
        vals = Saving(scaled_int_l2_cost(param=1, scale=3)).fit(X).evaluate(np.array(ivs))
        for iv, row in zip(ivs, vals):
            want = [a - b for a, b in zip(fx3(st(*iv), 1), lr3(st(*iv)))]
            if [float(v) for v in row] != [float(w) for w in want]:
                fails.append(("score_differs_from_cost_difference", {"scorer": "Saving(ScaledIntL2Cost(1, scale=3))", "cut": list(iv),
                                                                     "got": row.tolist(), "definition": want}))
                break
        c3 = [(s, k, e) for s in range(n) for k in range(s + 1, n) for e in range(k + 1, n + 1)]
        if c3:
            vals = ChangeScore(scaled_int_l2_cost(scale=3)).fit(X).evaluate(np.array(c3))
            for cut, row in zip(c3, vals):
                s, k, e = cut
                want = [x - y - z for x, y, z in zip(lr3(st(s, e)), lr3(st(s, k)), lr3(st(k, e)))]
                if [float(v) for v in row] != [float(w) for w in want]:
                    fails.append(("score_differs_from_cost_difference", {"scorer": "ChangeScore(ScaledIntL2Cost(scale=3))", "cut": list(cut),
                                                                         "got": row.tolist(), "definition": want}))
                    break
        if cuts:
            vals = LocalAnomalyScore(scaled_int_l2_cost(scale=3)).fit(X).evaluate(np.array(cuts))
            for cut, row in zip(cuts, vals):
                s, a, b, e = cut
                pooled = add_stats(st(s, a), st(b, e))
                want = [x - y - z for x, y, z in zip(lr3(st(s, e)), lr3(st(a, b)), lr3(pooled))]
                if [float(v) for v in row] != [float(w) for w in want]:
                    fails.append(("score_differs_from_cost_difference", {"scorer": "LocalAnomalyScore(ScaledIntL2Cost(scale=3))", "cut": list(cut),
                                                                         "got": row.tolist(), "definition": want}))
                    break
    except Exception as e:
        fails.append(("raises", {"scorer": "adapter(ScaledIntL2Cost)", "error": repr(e)[:200]}))
    # ---- pass-through constructors
    cs, sv, lo = CUSUM(), L2Saving(), LocalAnomalyScore(by["L2Cost()"][1]())
    if to_change_score(cs) is not cs or to_saving(sv) is not sv or to_local_anomaly_score(lo) is not lo:
        fails.append(("pass_through_wraps_a_score", {}))
    c = by["L2Cost(1)"][1]()
    if not isinstance(to_change_score(c), ChangeScore) or not isinstance(to_saving(c), Saving) or \
            not isinstance(to_local_anomaly_score(c), LocalAnomalyScore):
        fails.append(("pass_through_does_not_adapt_a_cost", {}))
    return fails, len({tuple(r) for r in case["X"]}) > 1


def _replay_chunk(cases):
    return [replay_case(c) for c in cases]


def dtype_family(seed, count):
    """The identities with the data given as NARROW INTEGERS (int8 / int16 / int32 at magnitudes whose squares leave the
    dtype): the adapter is fitted on the integer-typed data, the defining cost differences are taken from the cost fitted
    on the float copy of the same numbers (seeded change C06-e: GaussianVarCost squaring in the input's own dtype)."""
    import warnings

    warnings.filterwarnings("ignore")
    from skchange.anomaly_scores import L2Saving, LocalAnomalyScore, Saving
    from skchange.change_scores import CUSUM, ChangeScore
    from skchange.costs import GaussianCovCost, GaussianVarCost, L2Cost

    rng = np.random.default_rng(seed)
    fails, n_eval = [], 0
    for i in range(count):
        n, p = int(rng.integers(8, 15)), int(rng.integers(1, 4))
        dt, mag = [(np.int8, 15), (np.int16, 1500), (np.int32, 150000)][i % 3]
        Xi = rng.integers(-mag, mag + 1, size=(n, p))
        Xf = Xi.astype(float)
        for container in ("array", "frame"):
            Xn = Xi.astype(dt) if container == "array" else __import__("pandas").DataFrame(Xi.astype(dt))
            for cname, mk, fixed, ms in (("L2Cost", L2Cost, 0.0, 1), ("GaussianVarCost", GaussianVarCost, (0.0, float(mag) ** 2), 2),
                                         ("GaussianCovCost", GaussianCovCost, (0.0, float(mag) ** 2), p + 1)):
                s, e = 0, n
                k = int(rng.integers(s + ms, e - ms + 1))
                a = int(rng.integers(s + 1, e - ms - 1))
                b = int(rng.integers(a + ms, e))
                if (a - s) + (e - b) < ms:
                    continue
                try:
                    C = mk().fit(Xf)
                    c = lambda u, v: C.evaluate(np.array([[u, v]]))[0]
                    want_chg = c(s, e) - c(s, k) - c(k, e)
                    pooled = mk().fit(np.vstack([Xf[s:a], Xf[b:e]])).evaluate(np.array([[0, (a - s) + (e - b)]]))[0]
                    want_loc = c(s, e) - c(a, b) - pooled
                    want_sav = mk(param=fixed).fit(Xf).evaluate(np.array([[a, b]]))[0] - c(a, b)
                    got = {"ChangeScore": (ChangeScore(mk()).fit(Xn).evaluate(np.array([[s, k, e]]))[0], want_chg),
                           "LocalAnomalyScore": (LocalAnomalyScore(mk()).fit(Xn).evaluate(np.array([[s, a, b, e]]))[0], want_loc),
                           "Saving": (Saving(mk(param=fixed)).fit(Xn).evaluate(np.array([[a, b]]))[0], want_sav)}
                    if cname == "L2Cost":
                        got["CUSUM^2"] = (CUSUM().fit(Xn).evaluate(np.array([[s, k, e]]))[0] ** 2, want_chg)
                        got["L2Saving"] = (L2Saving().fit(Xn).evaluate(np.array([[a, b]]))[0], want_sav)
                except RuntimeError:
                    continue   # documented: singular sample covariance
                for scorer, (g, w) in got.items():
                    n_eval += 1
                    scale = max(1.0, float(np.max(np.abs(w))), float(mag) ** 2)
                    if np.shape(g) != np.shape(w) or not np.allclose(g, w, rtol=1e-8, atol=1e-9 * scale):
                        fails.append(("score_differs_from_cost_difference",
                                      {"scorer": f"{scorer}({cname}) on {np.dtype(dt).name} {container}", "n": n, "p": p, "cuts": [s, k, a, b, e],
                                       "got": np.asarray(g, dtype=float).tolist(), "cost_difference": np.asarray(w, dtype=float).tolist(),
                                       "X": Xi.tolist()}))
    return fails, n_eval


def run(tier: str) -> int:
    chk = Check(PROP, tier)
    chk.rule = ("stage A/B: every integer matrix with entries -1..2 (or -1..1) of the listed shapes x ALL admissible 3- and "
                "4-point cuts x {ChangeScore, Saving, LocalAnomalyScore} over 8-11 built-in cost kinds and a user-defined "
                "integer cost and one with an extra hyper-parameter, plus CUSUM and L2Saving; stage C: seeded lattice data n<=9.  A case is one matrix; "
                "non-trivial = not all rows equal; distinct by hash of the matrix.")
    chk.assumptions = ["TLC/SANY and the Json module", "math.log applied to TLC's exact arguments", "tolerance 1e-8 relative",
                       "slices with an exactly singular covariance are excluded from the identities (C01 judges them)"]
    with Workdir(PROP) as wd:
        cases = []
        for label, cs, nsl, slices in STAGE[tier]:
            if slices is not None:
                slices = sorted({(s + chk.seed) % nsl for s in slices})
            cs_a = cs if cs["N"] * cs["P"] <= 6 else dict(cs, NSlices=max(nsl, 8), Slice=chk.seed % max(nsl, 8))   # one slice of large spaces
            stages.model_check(chk, "Costs", cs_a, INVS, wd=wd, label="A:" + label)
            cases += stages.emit_cases(chk, "Costs", cs, wd=wd, label="B:" + label, invariants=("EmitFitted",),
                                       nslices=nsl, slices=slices)
        uniq = {}
        for c in cases:
            uniq.setdefault(sha(c["X"]), c)
        items = list(uniq.items())
        with ProcessPoolExecutor(max_workers=stages.NCPU) as ex:
            chunks = [items[i::64] for i in range(64) if items[i::64]]
            for chunk, ress in zip(chunks, ex.map(_replay_chunk, [[c for _, c in ch] for ch in chunks])):
                for (key, case), (fails, nontrivial) in zip(chunk, ress):
                    chk.case({"stage": "B", "n": case["n"], "p": case["p"], "X": case["X"]}, nontrivial=nontrivial, key=key)
                    chk.traces += 1
                    for clause, obs in fails[:3]:
                        chk.violation({"stage": "B", "case": {"n": case["n"], "p": case["p"], "X": case["X"]}, "observed": obs},
                                      clause, {"scorer": obs.get("scorer"), "clause": clause, "input_sha": key})
        dfails, dn = dtype_family(chk.seed, 30 if tier == "quick" else 300)
        chk.evaluations += dn
        chk.extra["narrow_integer_identities_compared"] = dn
        for clause, obs in dfails[:5]:
            chk.violation({"stage": "dtype", "observed": obs}, clause, {"scorer": obs["scorer"], "clause": clause})
        count = 30 if tier == "quick" else 500
        with ProcessPoolExecutor(max_workers=stages.NCPU) as ex:
            traces = [t for part in ex.map(record, [(chk.seed + 50 + k, count) for k in range(16)]) for t in part]
        for t in [t for t in traces if "error" in t]:
            chk.violation({"stage": "C", "trace": t}, "raises", {"clause": "raises"})
        traces = [t for t in traces if "error" not in t]
        verdicts = stages.validate_traces(chk, "Trace_Costs", traces, wd=wd, label="C:scores", batch=120)
        for t in traces:
            v = verdicts.get(t["id"])
            chk.case({"stage": "C", "id": t["id"], "n": t["n"], "p": t["p"], "obs": [o for o in t["obs"] if o[0] in ("l2chg", "l2loc")][:3]},
                     nontrivial=True, key=t["id"])
            if v and v != "ok":
                clause = v.split(":", 1)[1]
                chk.violation({"stage": "C", "trace": t, "verdict": v}, clause, {"clause": clause})
    return chk.finish()


def replay(body) -> int:
    print(body["case"])
    return 1
