"""The seven detectors with small configurations, and lattice data to run them on (C04/C05/C10/...)."""

from __future__ import annotations

import numpy as np


def lattice_data(rng, n, p, kind=None):
    """Small-integer / dyadic data with events: level shifts, adjacent anomalies, spikes, constants."""
    kind = int(rng.integers(0, 7)) if kind is None else kind
    X = rng.integers(-1, 2, size=(n, p)).astype(float)
    if kind == 0:  # constant
        X[:] = float(rng.integers(-2, 3))
    elif kind == 1:  # level shifts
        for _ in range(int(rng.integers(1, 4))):
            k = int(rng.integers(1, n))
            X[k:] += rng.integers(-6, 7, size=p)
    elif kind == 2:  # adjacent anomalies of different level + point anomalies
        s = int(rng.integers(0, max(1, n - 4)))
        m = int(rng.integers(s + 1, min(n, s + 6)))
        e = int(rng.integers(m, min(n, m + 6) + 1))
        X[s:m] += 8
        X[m:e] -= 9
        X[int(rng.integers(0, n)), int(rng.integers(0, p))] += 20
    elif kind == 3:  # isolated spikes, first/last sample
        X[0] += 15
        X[-1] -= 15
        X[int(rng.integers(0, n))] += 12
    elif kind == 4:  # ties: repeated blocks
        X = np.repeat(rng.integers(-3, 4, size=(n // 3 + 1, p)), 3, axis=0)[:n].astype(float)
    elif kind == 5:  # change at the first / last admissible position
        X[:1] += 9
        X[-1:] += 9
    elif kind == 7:  # a weak shift in EVERY column (dense but weak: no single column stands out), only on request
        s = int(rng.integers(0, max(1, n - 2)))
        e = min(n, s + int(rng.integers(2, 6)))
        X[s:e] += 1.0
    else:  # dyadic noise
        X = rng.integers(-8, 9, size=(n, p)) / 4.0
    return X


class LightDensePenalty:
    """A user-supplied MVCAPA penalty (documented option): a small constant, nothing per component.  With it an anomaly is
    reported as soon as the SUMMED saving is positive enough, also when no single column exceeds the sparse per-column
    penalty that the affected-column inference uses (seeded change C04-e: an empty column list)."""

    def __call__(self, n, p, n_params_per_variable=1, scale=1.0):
        return 0.5 * scale, np.zeros(p)

    def __repr__(self):
        return "LightDensePenalty()"


def detector_specs():
    """name -> (factory(params), parameter sets).  Small parameters so that short series suffice."""
    from skchange.anomaly_detectors import CAPA, MVCAPA, CircularBinarySegmentation, StatThresholdAnomaliser
    from skchange.change_detectors import PELT, MovingWindow, SeededBinarySegmentation
    from skchange.costs import GaussianVarCost, L2Cost

    return {
        "PELT": (PELT, [dict(min_segment_length=1, penalty_scale=0.5),
                        dict(min_segment_length=2, penalty_scale=0.2),
                        dict(min_segment_length=3, penalty_scale=1.0, cost=GaussianVarCost()),
                        dict(min_segment_length=2, penalty_scale=0.0)]),
        "MovingWindow": (MovingWindow, [dict(bandwidth=1, threshold_scale=0.5),
                                        dict(bandwidth=2, threshold_scale=1.0),
                                        dict(bandwidth=3, threshold_scale=None, level=0.2),
                                        dict(bandwidth=6, threshold_scale=0.3, min_detection_interval=2)]),
        "SeededBinarySegmentation": (SeededBinarySegmentation,
                                     [dict(min_segment_length=1, max_interval_length=2, threshold_scale=0.5),
                                      dict(min_segment_length=2, max_interval_length=8, threshold_scale=1.0, growth_factor=2.0),
                                      dict(min_segment_length=1, max_interval_length=20, threshold_scale=None, level=0.3),
                                      dict(min_segment_length=3, max_interval_length=6, threshold_scale=0.2, growth_factor=1.2)]),
        "CAPA": (CAPA, [dict(min_segment_length=2, max_segment_length=5, collective_penalty_scale=0.3, point_penalty_scale=0.3),
                        dict(min_segment_length=3, max_segment_length=100, collective_penalty_scale=1.0, point_penalty_scale=1.0),
                        dict(min_segment_length=2, max_segment_length=2, collective_penalty_scale=0.0, point_penalty_scale=0.5,
                             ignore_point_anomalies=True)]),
        "MVCAPA": (MVCAPA, [dict(min_segment_length=2, max_segment_length=5, collective_penalty_scale=0.3, point_penalty_scale=0.3),
                            dict(min_segment_length=3, max_segment_length=100, collective_penalty="sparse",
                                 collective_penalty_scale=0.5, point_penalty_scale=1.0),
                            dict(min_segment_length=2, max_segment_length=4, collective_penalty="dense",
                                 collective_penalty_scale=0.2, point_penalty="dense", point_penalty_scale=0.2),
                            dict(min_segment_length=2, max_segment_length=6, collective_penalty=LightDensePenalty(),
                                 collective_penalty_scale=2.0, point_penalty_scale=2.0)]),
        "CircularBinarySegmentation": (CircularBinarySegmentation,
                                       [dict(min_segment_length=1, max_interval_length=6, threshold_scale=0.3),
                                        dict(min_segment_length=2, max_interval_length=10, threshold_scale=0.5, growth_factor=2.0),
                                        dict(min_segment_length=2, max_interval_length=4, threshold_scale=None, level=0.3)]),
        "StatThresholdAnomaliser": (StatThresholdAnomaliser,
                                    [dict(change_detector=PELT(min_segment_length=1, penalty_scale=0.3), stat_lower=-1.0, stat_upper=1.0),
                                     dict(change_detector=MovingWindow(bandwidth=2, threshold_scale=0.5), stat=np.median,
                                          stat_lower=-0.5, stat_upper=0.5)]),
    }


def min_length(name, params):
    if name in ("PELT", "SeededBinarySegmentation", "CircularBinarySegmentation"):
        return 2 * params["min_segment_length"]
    if name == "MovingWindow":
        return 2 * params["bandwidth"]
    if name in ("CAPA", "MVCAPA"):
        return params["min_segment_length"]
    inner = params["change_detector"]
    return min_length(type(inner).__name__, inner.get_params(deep=False))


def limits(name, params, n):
    """C04 limits of the output as a dict for Trace_Formats' output records."""
    if name == "PELT" or name == "SeededBinarySegmentation":
        return dict(kind="change", minseg=params["min_segment_length"], lo=1, hi=n - 1)
    if name == "MovingWindow":
        return dict(kind="change", minseg=1, lo=params["bandwidth"], hi=n - params["bandwidth"])
    if name == "CAPA":
        return dict(kind="anomaly", lengths="capa", m=params["min_segment_length"], mx=params["max_segment_length"])
    if name == "MVCAPA":
        return dict(kind="subset", lengths="capa", m=params["min_segment_length"], mx=params["max_segment_length"])
    if name == "CircularBinarySegmentation":
        return dict(kind="anomaly", lengths="inside", m=params["min_segment_length"], mx=0)
    return dict(kind="anomaly", lengths="none", m=1, mx=0)
