"""Run TLC and parse what it prints.

Everything TLC-related goes through `run()`:
  * a unique scratch directory under /verif/.work (removed by the caller via Workdir),
  * an outer timeout,
  * parsing of the statistics line, PrintT lines (`<<"TAG", ...>>`), invariant
    violations and per-action coverage.

A TLC *error* (parse error, evaluation error, timeout) is a machinery failure and raises
TLCError; an *invariant violation* is a result (`res.violated`).
"""

from __future__ import annotations

import json
import os
import re
import shutil
import subprocess
import tempfile
import time
from dataclasses import dataclass, field

ROOT = os.path.dirname(os.path.dirname(os.path.abspath(__file__)))
SPEC_DIR = os.path.join(ROOT, "spec")
WORK_ROOT = os.path.join(ROOT, ".work")
JAR = "/opt/veriftools/tla/tla2tools.jar"
DEPS = "/opt/veriftools/tla/CommunityModules-deps.jar"


class TLCError(RuntimeError):
    """TLC itself failed (not an invariant violation)."""


class Workdir:
    """Scratch directory under /verif/.work, removed on exit."""

    def __init__(self, tag: str):
        os.makedirs(WORK_ROOT, exist_ok=True)
        self.path = tempfile.mkdtemp(prefix=f"{tag}-{os.getpid()}-", dir=WORK_ROOT)

    def __enter__(self):
        return self

    def __exit__(self, *exc):
        shutil.rmtree(self.path, ignore_errors=True)

    def file(self, name: str) -> str:
        return os.path.join(self.path, name)


@dataclass
class TLCResult:
    module: str
    generated: int = 0  # states generated == transitions explored
    distinct: int = 0
    depth: int = 0
    wall_s: float = 0.0
    violated: str | None = None  # name of violated invariant / property
    prints: list = field(default_factory=list)  # parsed PrintT payloads (python objects)
    coverage: dict = field(default_factory=dict)  # action -> (taken, distinct)
    trace: list = field(default_factory=list)  # counterexample states, raw text
    stdout: str = ""
    cmd: str = ""

    def tagged(self, tag: str) -> list:
        return [p for p in self.prints if isinstance(p, list) and p and p[0] == tag]


def cfg_text(
    constants: dict | None = None,
    invariants=(),
    properties=(),
    init="Init",
    next_="Next",
    specification=None,
    constraint=None,
    action_constraint=None,
    view=None,
    postcondition=None,
    deadlock=False,
) -> str:
    """Build a .cfg. Constant values: int/bool/str (str is emitted quoted unless it starts with '=')."""
    out = []
    if specification:
        out.append(f"SPECIFICATION {specification}")
    else:
        out.append(f"INIT {init}")
        out.append(f"NEXT {next_}")
    if constants:
        out.append("CONSTANTS")
        for k, v in constants.items():
            out.append(f"  {k} = {_cfg_val(v)}")
    for inv in invariants:
        out.append(f"INVARIANT {inv}")
    for p in properties:
        out.append(f"PROPERTY {p}")
    if constraint:
        out.append(f"CONSTRAINT {constraint}")
    if action_constraint:
        out.append(f"ACTION_CONSTRAINT {action_constraint}")
    if view:
        out.append(f"VIEW {view}")
    if postcondition:
        out.append(f"POSTCONDITION {postcondition}")
    out.append(f"CHECK_DEADLOCK {'TRUE' if deadlock else 'FALSE'}")
    return "\n".join(out) + "\n"


def _cfg_val(v):
    if isinstance(v, bool):
        return "TRUE" if v else "FALSE"
    if isinstance(v, int):
        if v < 0:
            raise ValueError("cfg files cannot hold negative numbers; use a module definition")
        return str(v)
    if isinstance(v, (set, frozenset, list, tuple)):
        return "{" + ", ".join(_cfg_val(x) for x in sorted(v)) + "}"
    if isinstance(v, str):
        if v.startswith("="):  # raw
            return v[1:]
        return '"' + v + '"'
    raise TypeError(v)


_STATS = re.compile(r"(\d+) states generated, (\d+) distinct states found, (\d+) states left on queue")
_DEPTH = re.compile(r"The depth of the complete state graph search is (\d+)")
_INV = re.compile(r"Error: Invariant (\S+) is violated")
_PROP = re.compile(r"Error: (?:Action|Temporal) propert(?:y|ies) (\S*) ?(?:is|were) violated")
_COV = re.compile(r"^<(\w+) line \d+, col \d+ to line \d+, col \d+ of module (\w+)>: (\d+):(\d+)")


def run(
    module: str,
    cfg: str,
    *,
    workdir: Workdir,
    workers: int | str = "auto",
    simulate: str | None = None,
    depth: int | None = None,
    seed: int | None = None,
    env: dict | None = None,
    timeout: int = 1800,
    coverage: bool = False,
    extra_modules: dict | None = None,
    spec_dir: str = SPEC_DIR,
    heap: str = "8g",
    dfs: bool = False,
    tag: str = "run",
    allow_violation: bool = True,
) -> TLCResult:
    """Run TLC on spec/<module>.tla with the given cfg text.

    All spec modules are copied into a per-run directory so that TLC's generated files and
    parallel runs never touch /verif/spec.  `extra_modules` maps file name -> text for generated
    modules (constants, literal case data).
    """
    rundir = tempfile.mkdtemp(prefix=f"{tag}-", dir=workdir.path)
    for fn in os.listdir(spec_dir):
        if fn.endswith(".tla"):
            shutil.copy(os.path.join(spec_dir, fn), rundir)
    for fn, text in (extra_modules or {}).items():
        with open(os.path.join(rundir, fn), "w") as f:
            f.write(text)
    cfg_path = os.path.join(rundir, f"{module}_run.cfg")
    with open(cfg_path, "w") as f:
        f.write(cfg)
    nworkers = str(os.cpu_count() or 4) if workers == "auto" else str(workers)
    jopts = ["-XX:+UseParallelGC", f"-Xmx{heap}"]
    if dfs:
        jopts.append("-Dtlc2.tool.queue.IStateQueue=StateDeque")
    cmd = ["java", *jopts, "-cp", f"{JAR}:{DEPS}", "tlc2.TLC",
           "-workers", nworkers, "-metadir", os.path.join(rundir, "meta"),
           "-noGenerateSpecTE", "-config", cfg_path]
    if simulate is not None:
        cmd += ["-simulate", simulate]
    if depth is not None:
        cmd += ["-depth", str(depth)]
    if seed is not None:
        cmd += ["-seed", str(seed)]
    if coverage:
        cmd += ["-coverage", "1"]
    cmd.append(module)
    full_env = dict(os.environ)
    full_env.pop("JAVA_TOOL_OPTIONS", None)
    if env:
        full_env.update({k: str(v) for k, v in env.items()})
    t0 = time.time()
    try:
        proc = subprocess.run(cmd, cwd=rundir, env=full_env, capture_output=True, text=True,
                              timeout=timeout)
    except subprocess.TimeoutExpired as e:
        subprocess.run(["pkill", "-f", rundir], check=False)
        raise TLCError(f"TLC timed out after {timeout}s on {module}") from e
    out = proc.stdout + ("\n" + proc.stderr if proc.stderr.strip() else "")
    res = TLCResult(module=module, stdout=out, cmd=" ".join(cmd), wall_s=time.time() - t0)
    for m in _STATS.finditer(out):
        res.generated, res.distinct = int(m.group(1)), int(m.group(2))
    if simulate is not None:
        ms = re.search(r"The number of states generated: (\d+)", out)
        if ms:
            res.generated = res.distinct = int(ms.group(1))
    m = _DEPTH.search(out)
    if m:
        res.depth = int(m.group(1))
    m = _INV.search(out)
    if m:
        res.violated = m.group(1)
    else:
        m = _PROP.search(out)
        if m:
            res.violated = m.group(1) or "property"
    res.prints = parse_prints(out)
    if coverage:
        for line in out.splitlines():
            mm = _COV.match(line.strip())
            if mm:
                res.coverage[mm.group(1)] = (int(mm.group(3)), int(mm.group(4)))
    if res.violated:
        res.trace = re.findall(r"^State \d+:.*?(?=^State \d+:|^\d+ states generated|\Z)", out,
                               flags=re.S | re.M)
        if not allow_violation:
            raise TLCError(f"unexpected violation of {res.violated} in {module}\n{out[-3000:]}")
        return res
    finished = "Model checking completed. No error has been found." in out or (
        simulate is not None and ("Finished in" in out or "states checked" in out))
    if not finished or proc.returncode not in (0,):
        # TLC exit codes: 0 ok, 12 safety violation, 13 liveness; everything else is an error
        raise TLCError(f"TLC failed on {module} (exit {proc.returncode})\n{out[-4000:]}")
    return res


def parse_prints(out: str) -> list:
    """Extract every PrintT'd TLA+ tuple `<<"TAG", ...>>` as a python list.

    Elements may be strings (JSON text is decoded when it parses as JSON), integers, booleans,
    nested tuples and sets (sets become sorted lists).  Values may span several lines.
    """
    res = []
    i = 0
    n = len(out)
    start = re.compile(r'^<<\s*"', re.M)
    while True:
        m = start.search(out, i)
        if not m:
            break
        j = m.start()
        try:
            val, k = _parse_value(out, j)
        except Exception:
            i = j + 3
            continue
        res.append(val)
        i = k
        if i >= n:
            break
    return res


def _skip_ws(s, i):
    while i < len(s) and s[i] in " \t\r\n":
        i += 1
    return i


def _parse_value(s: str, i: int):
    i = _skip_ws(s, i)
    if s.startswith("<<", i):
        i += 2
        items = []
        i = _skip_ws(s, i)
        if s.startswith(">>", i):
            return items, i + 2
        while True:
            v, i = _parse_value(s, i)
            items.append(v)
            i = _skip_ws(s, i)
            if s.startswith(">>", i):
                return items, i + 2
            if s[i] != ",":
                raise ValueError("tuple")
            i += 1
    if s[i] == "{":
        i += 1
        items = []
        i = _skip_ws(s, i)
        if s[i] == "}":
            return items, i + 1
        while True:
            v, i = _parse_value(s, i)
            items.append(v)
            i = _skip_ws(s, i)
            if s[i] == "}":
                try:
                    items = sorted(items)
                except TypeError:
                    pass
                return items, i + 1
            if s[i] != ",":
                raise ValueError("set")
            i += 1
    if s[i] == '"':
        j = i + 1
        buf = []
        while s[j] != '"':
            if s[j] == "\\":
                buf.append(s[j:j + 2])
                j += 2
            else:
                buf.append(s[j])
                j += 1
        raw = "".join(buf)
        text = json.loads('"' + raw.replace("\n", "\\n") + '"')
        if text[:1] in "{[":
            try:
                return json.loads(text), j + 1
            except Exception:
                pass
        return text, j + 1
    m = re.compile(r"-?\d+").match(s, i)
    if m:
        return int(m.group(0)), m.end()
    if s.startswith("TRUE", i):
        return True, i + 4
    if s.startswith("FALSE", i):
        return False, i + 5
    raise ValueError(f"cannot parse TLA+ value at {s[i:i+30]!r}")


def sany(module_path: str) -> tuple[bool, str]:
    proc = subprocess.run(["java", "-cp", f"{JAR}:{DEPS}", "tla2sany.SANY", module_path],
                          capture_output=True, text=True, cwd=os.path.dirname(module_path))
    ok = proc.returncode == 0 and "Semantic errors" not in proc.stdout and "error" not in proc.stdout.lower().replace("errors: 0", "")
    return ok, proc.stdout + proc.stderr


def tla_int_seq(xs) -> str:
    return "<<" + ", ".join(tla_val(x) for x in xs) + ">>"


def tla_val(x) -> str:
    """Python value -> TLA+ literal (ints, bools, strings, lists -> sequences, dicts -> records)."""
    if isinstance(x, bool):
        return "TRUE" if x else "FALSE"
    if isinstance(x, int):
        return str(x) if x >= 0 else f"(-{-x})"
    if isinstance(x, str):
        return json.dumps(x)
    if isinstance(x, (list, tuple)):
        return "<<" + ", ".join(tla_val(v) for v in x) + ">>"
    if isinstance(x, (set, frozenset)):
        return "{" + ", ".join(tla_val(v) for v in sorted(x)) + "}"
    if isinstance(x, dict):
        if not x:
            return "<<>>"
        return "[" + ", ".join(f"{k} |-> {tla_val(v)}" for k, v in x.items()) + "]"
    raise TypeError(type(x))
