"""setup_cmd: offline build of the framework = parse every specification module with SANY."""
import os
import sys
from concurrent.futures import ThreadPoolExecutor

from . import tlc


def main():
    os.makedirs(tlc.WORK_ROOT, exist_ok=True)
    os.makedirs(os.path.join(tlc.ROOT, "evidence"), exist_ok=True)
    os.makedirs(os.path.join(tlc.ROOT, "replays"), exist_ok=True)
    mods = sorted(f for f in os.listdir(tlc.SPEC_DIR) if f.endswith(".tla"))
    with ThreadPoolExecutor(max_workers=8) as ex:
        res = list(ex.map(lambda m: tlc.sany(os.path.join(tlc.SPEC_DIR, m)), mods))
    bad = 0
    for m, (ok, out) in zip(mods, res):
        if not ok:
            bad += 1
            print(f"SANY FAILED {m}\n{out[-1500:]}")
    print(f"setup: {len(mods) - bad}/{len(mods)} modules parse")
    import skchange  # noqa: F401  (the editable install must point at /repo)

    print("skchange from", os.path.dirname(skchange.__file__))
    return 1 if bad else 0


if __name__ == "__main__":
    sys.exit(main())
