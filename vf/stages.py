"""Stage helpers shared by the checks.

stage A: model_check()      -- TLC on an implementation-layer spec, no violation expected
stage B: emit_cases()       -- TLC prints CASE records (split in slices, one single-worker TLC each)
stage C: validate_traces()  -- recorded traces validated by a Trace_*.tla spec, in batches
"""

from __future__ import annotations

import json
import os
from concurrent.futures import ThreadPoolExecutor

from . import tlc
from .common import canon, chunks

NCPU = os.cpu_count() or 4


def _safe(label: str) -> str:
    return "".join(ch if ch.isalnum() or ch in "-_." else "_" for ch in label)


def model_check(chk, module, constants, invariants, *, wd, label, init="Init", next_="Next",
                properties=(), constraint=None, timeout=3000, coverage=False, workers="auto",
                simulate=None, depth=None, seed=None, expect_actions=()):
    cfg = tlc.cfg_text(constants, invariants=invariants, properties=properties, init=init,
                       next_=next_, constraint=constraint)
    res = tlc.run(module, cfg, workdir=wd, timeout=timeout, coverage=coverage, workers=workers,
                  simulate=simulate, depth=depth, seed=seed, tag=_safe(label))
    chk.add_tlc(res, label)
    if res.violated:
        chk.violation({"stage": "A", "module": module, "constants": constants,
                       "invariant": res.violated, "trace": res.trace[-4:]},
                      clause=f"model:{res.violated}",
                      signature={"stage": "A", "module": module, "invariant": res.violated})
    if coverage and expect_actions:
        for a in expect_actions:
            if res.coverage.get(a, (0, 0))[0] == 0:
                chk.machinery(f"action {a} of {module} never taken in {label} (vacuous model)")
    return res


def expect_violation(module, constants, invariants, *, wd, label, init="Init", next_="Next",
                     expected=None, timeout=3000, properties=()):
    """Negative configuration: TLC MUST report a violation (of `expected` if given)."""
    cfg = tlc.cfg_text(constants, invariants=invariants, init=init, next_=next_,
                       properties=properties)
    res = tlc.run(module, cfg, workdir=wd, timeout=timeout, tag=_safe(label))
    ok = res.violated is not None and (expected is None or res.violated in expected)
    return ok, res


def emit_cases(chk, module, constants, *, wd, label, invariants=("EmitDone",), init="Init",
               next_="Next", nslices=1, slices=None, tag="CASE", timeout=3000, simulate=None,
               depth=None, seed=None, constraint=None):
    """Run TLC with Emit = TRUE; returns the de-duplicated list of emitted records."""
    slices = list(range(nslices)) if slices is None else slices

    def one(sl):
        consts = dict(constants)
        consts.update({"Emit": True, "NSlices": nslices, "Slice": sl})
        cfg = tlc.cfg_text(consts, invariants=invariants, init=init, next_=next_,
                           constraint=constraint)
        return tlc.run(module, cfg, workdir=wd, workers=1, timeout=timeout, tag=_safe(f"{label}-s{sl}"),
                       simulate=simulate, depth=depth,
                       seed=None if seed is None else seed + sl, heap="3g")

    with ThreadPoolExecutor(max_workers=min(NCPU, len(slices))) as ex:
        results = list(ex.map(one, slices))
    seen = {}
    for res in results:
        chk.add_tlc(res, label)
        if res.violated:
            chk.machinery(f"emission run {label} violated {res.violated}")
        for p in res.tagged(tag):
            rec = p[-1]
            seen.setdefault(canon(rec), rec)
    return list(seen.values())


def validate_traces(chk, module, traces, *, wd, label, batch=400, timeout=3000, extra_env=None,
                    dfs=False):
    """Validate recorded traces (list of dicts, each with a unique 'id') with spec/<module>.tla.

    Returns {id: verdict}.  A trace without a verdict is a machinery failure.
    """
    batches = list(chunks(traces, batch))

    def one(args):
        k, b = args
        path = wd.file(_safe(f"{label}-{k}") + ".json")
        with open(path, "w") as f:
            json.dump(b, f)
        cfg = tlc.cfg_text(None, init="Init", next_="Next")
        env = {"TRACE_FILE": path}
        env.update(extra_env or {})
        res = tlc.run(module, cfg, workdir=wd, workers=1, env=env, timeout=timeout,
                      tag=_safe(f"{label}-{k}"), heap="3g", dfs=dfs)
        os.remove(path)
        return res

    with ThreadPoolExecutor(max_workers=NCPU) as ex:
        results = list(ex.map(one, enumerate(batches)))
    verdicts = {}
    for res in results:
        chk.add_tlc(res, label)
        for p in res.tagged("VERDICT"):
            verdicts[p[1]] = p[2]
    for tr in traces:
        if tr["id"] not in verdicts:
            chk.machinery(f"no verdict for trace {tr['id']} from {module}")
    chk.traces += len(verdicts)
    return verdicts
