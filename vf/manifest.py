"""Generates /verif/MANIFEST.json from the table below (so that it is always schema-valid).

usage: /venv/bin/python -m vf.manifest
"""
import json
import os

ROOT = os.path.dirname(os.path.dirname(os.path.abspath(__file__)))

PY = "/venv/bin/python -m vf.check"

# id -> (design section, modules, level text, level note, technique)
CLAIMED = {
    "C02": (
        "7/C02",
        "Segmentation.tla, Pelt.tla, Trace_Pelt.tla",
        "TLC checks that the implementation-shaped model of run_pelt/get_changepoints (one action per "
        "loop iteration, delayed pruning) refines the set-theoretic definition of an optimal "
        "segmentation for every super-additive integer table, penalty and min_segment_length within "
        "the constants (prefix optimum, prune soundness, back-tracking); every enumerated case is then "
        "replayed through run_pelt and the PELT class with table-valued user costs and compared with "
        "the property layer's optimum / set of optimal segmentations, and recorded runs on larger "
        "tables and built-in costs are validated by TLC (Trace_Pelt).",
        "Bounded: exhaustive for n<=5..8 (see evidence stages), sampled up to n=14; built-in costs are "
        "judged on quantised recorded cost tables (deviations below tol*unit count as rounding); "
        "numba paths not exercised (numba absent).",
        "TLA+ refinement model checked with TLC + spec-to-code replay + trace validation",
    ),
    "C03": (
        "7/C03",
        "AnomalySets.tla, Capa.tla, Trace_Capa.tla",
        "TLC checks that the implementation-shaped model of run_base_capa (three penalise_savings "
        "branches, arg-max start selection, delayed pruning, max-length pruning, get_anomalies) refines "
        "the set-theoretic optimum over all sets of disjoint admissible anomalies for every sub-additive "
        "non-negative saving table, penalty and (M, Mx) within the constants; every enumerated case is "
        "replayed through run_base_capa and MVCAPA with table savings and callable penalties (scores of "
        "every prefix, reported set in the set of optimal sets, ignore_point_anomalies), and recorded "
        "CAPA/MVCAPA runs with built-in savings and all penalty families are validated by TLC "
        "(Trace_Capa: prefix optimum, re-evaluation, monotone scores).",
        "Bounded: exhaustive for n<=5 (p=1), n<=4 (p=2), n=2 (p=3); sampled to n=10, p<=4; built-in "
        "savings judged on quantised recorded tables (tol*unit = rounding); numba paths not exercised.",
        "TLA+ refinement model checked with TLC + spec-to-code replay + trace validation",
    ),
    "C13": (
        "7/C13",
        "Cuts.tla, ScorerSizes.tla",
        "TLC checks on the Check;Kernel model (Python indexing semantics: negative index wraps, slice "
        "truncates, index beyond the array raises) that no accepted cut wraps or truncates, that no "
        "IndexError escapes and that Check rejects exactly the complement of the admissible set, for "
        "every tuple of the box; TLC then emits the admitted set per (n, kind, min_size) and the harness "
        "feeds every tuple of the box and the malformed shapes to all 17 scorer classes/compositions: "
        "ValueError iff rejected by the spec, accepted cuts must score as the same rows do in isolation; half of the "
        "scorer objects have been fitted and used on data of another width before.  ScorerSizes.tla: histories of "
        "Fit(p) / min_size / Probe / get_param_size(q) on one object of each of 14 scorer kinds, executed on real "
        "objects: the smallest interval length evaluate accepts must be the minimum size of the LAST fit.",
        "Exhaustive over the box [-2,n+2]^k (quick) / [-3,n+3]^k (thorough) for n in 3..5/6 only; one "
        "lattice data set per n in general position; the value oracle is metamorphic (same rows scored "
        "alone), the definitional value itself is C01/C06's job.",
        "TLA+ model of check-then-kernel with Python index semantics, TLC exhaustive + exhaustive replay",
    ),
    "C05": (
        "7/C05",
        "FormatsDefs.tla, Formats.tla, Trace_Formats.tla",
        "TLC checks, for every valid sparse output up to the length bound and every index kind, that the "
        "converters as coded (slice assignment, interval look-up by position, run detection with label "
        "splits, first/last row per label) produce exactly the set-theoretic labelling of positions and "
        "that converting back reproduces the output; every enumerated output is replayed through the "
        "public static converters and through transform() of stub detectors for six index types and two "
        "column labelings, and predict/transform/dense_to_sparse of the seven real detectors on lattice "
        "data with planted adjacent / point / end-touching events are validated by TLC (Trace_Formats).",
        "Exhaustive for n<=6 (quick) / 7 (thorough), subset variant n<=5/6 with p<=2/3 (quick: seeded 25% "
        "sample of the subset cases); index types: RangeIndex default/offset/step/negative, DatetimeIndex, "
        "PeriodIndex; overlapping anomalies are outside the property's domain (valid sparse outputs).",
        "TLA+ state machine input->dense->back checked with TLC + exhaustive replay + trace validation",
    ),
    "C08": (
        "7/C08",
        "MovingWindowDefs.tla, MovingWindow.tla, Trace_MovingWindow.tla",
        "TLC checks the window construction, the where() scan automaton (one action per loop iteration, "
        "with its scan invariant) and the arg-max per run against the set-theoretic definition of maximal "
        "runs and peaks, plus time reversal, for every score table / threshold in steps of 1/2 (ties with a score "
        "included: exceeds is strict) / "
        "min_detection_interval within the constants; each case is replayed through the module functions "
        "and the MovingWindow class with a table change score keyed by the exact cut (t-b, t, t+b) (any "
        "other window scores a hash value and shows in transform_scores), also on the reversed table; "
        "recorded runs with CUSUM and cost-based scores on lattice data and on the reversed series are "
        "validated by TLC (Trace_MovingWindow).",
        "Bounded: exhaustive tables for n<=9/10, b<=3/4, values 0..3; sampled built-in scores n<=35; score VALUES "
        "are judged within tol*unit, the runs of exceedances and their peaks exactly (dense ranks of the detector's "
        "own scores and threshold_, tuned thresholds that coincide with a training score included); class-level "
        "min_detection_interval>1 only in stage C (constructor requires bandwidth>=6).",
        "TLA+ scan-automaton model checked with TLC + spec-to-code replay + trace validation",
    ),
    "C07": (
        "7/C07",
        "GreedyDefs.tla, SeededBinseg.tla, Trace_Binseg.tla",
        "TLC checks the zeroing while-loop of greedy_changepoint_selection (one action per turn, any tie "
        "resolution) against the recursive greedy definition for every set of up to K admissible candidate "
        "intervals with every (score, arg-max) assignment and threshold in steps of 1/2 (ties included) within the constants "
        "(characterisation, support, nothing left, spacing, threshold monotonicity as a prefix property); "
        "cases are replayed through the selection function, and recorded SeededBinarySegmentation runs "
        "(integer score tables over all cuts with frequent ties; built-in scores; the (n, M, L, growth) grid "
        "incl. L = 2M) are validated by TLC: candidates admissible and non-empty, per-interval score/arg-max "
        "are the maximum/maximiser over the admissible splits, the output is a greedy result, pairs of "
        "thresholds are monotone.",
        "The interval construction itself (geomspace, rounding) is an input to the spec: only admissibility "
        "and non-emptiness are required, as the property states. Exhaustive for n<=6/8, K<=3; sampled n<=24; "
        "score VALUES are judged within tol*unit (R3), the greedy selection exactly (dense ranks of the reported "
        "scores and threshold_; tuned and zero thresholds included); a call that does not return within 10-20 s "
        "on these small inputs is the verdict does_not_terminate.",
        "TLA+ greedy-loop model checked with TLC + spec-to-code replay + trace validation",
    ),
    "C09": (
        "7/C09",
        "GreedyDefs.tla, SeededBinseg.tla (Mode = overlaps), Trace_Binseg.tla",
        "As C07 with inner intervals: TLC checks that the double loop of make_anomaly_intervals is the set "
        "Inner(s,e,M), that candidates without inner interval keep score 0 and are never selected, and the "
        "greedy loop with overlap removal against the recursive definition (disjoint, strictly inside, "
        "threshold monotone); recorded CircularBinarySegmentation runs (integer local-score tables over all "
        "4-point cuts; LocalAnomalyScore of built-in costs) are validated by TLC incl. the reported arg-max "
        "inner interval of every candidate.",
        "Exhaustive for n<=7, K<=2/3 candidates; sampled n<=18; R3 margins as C07.",
        "TLA+ greedy-loop model checked with TLC + spec-to-code replay + trace validation",
    ),
    "C16": (
        "7/C16",
        "AnomalySets.tla (ColsAdmit), Capa.tla (AffectedCode, AffectedAdmitted), Trace_Capa.tla (ColsVerdict)",
        "TLC checks that every column list find_affected_components can produce (argsort in decreasing "
        "order with any tie order, cumulative penalised sum, arg-max prefix) is admitted by the set-theoretic "
        "definition (top-k columns, decreasing, k maximises the penalised cumulative saving) for every savings "
        "vector and integer (alpha, betas) with P up to 4..6; TLC emits the admitted lists per interval and "
        "find_affected_components is run on each; MVCAPA runs on data with planted dense / sparse / "
        "single-column / point anomalies (p in 2..6) are validated by TLC with the component savings "
        "recorded from an independent saving and the sparse / point penalties from the public penalty "
        "functions, and the cells marked by transform are compared with predict.",
        "Ties within tol*unit are not judged in stage C (the property excludes ties by margin); the "
        "numeric penalty values are taken from the public penalty functions (C15).",
        "TLA+ operator-level refinement checked with TLC + spec-to-code replay + trace validation",
    ),
    "C01": (
        "7/C01",
        "CostsDefs.tla, Costs.tla, Trace_Costs.tla, CostParams.tla",
        "TLC checks on the fitted-state model of the costs (zero-first-row prefix arrays, stored data, "
        "prefix and slice kernels, histories of evaluate calls with batches) that the kernels' differences "
        "of prefix rows equal the direct sums over the rows of the slice, that evaluate never changes the "
        "fitted state and that every row ever returned equals the definition whatever the batch or history; "
        "TLC then emits the exact sufficient statistics (length, sums, cross moments, scatter determinant) "
        "of every slice of every lattice matrix, and every built-in cost in both parameter modes (scalar and "
        "per-column parameters, PD covariances) is evaluated in several batch orders and compared with the "
        "closed form of the property applied to those statistics (exactly singular slices: RuntimeError or "
        "finite); larger lattice data are validated by TLC (Trace_Costs: exact rationals, recovered "
        "variance / determinant).  CostParams.tla: the fixed-parameter domain (shape of mean, variance, covariance; "
        "positive definiteness by Sylvester's criterion) as a state machine over 216 grid points, each passed to the "
        "real class in four spellings on float and int64 data; accepted parameters must give the definition's value "
        "for the specification's per-column parameter.",
        "math.log is applied on the specification side to TLC's exact arguments (trusted); exhaustive for "
        "n<=5/6 with entries -1..2; prefix-sum rounding on data of large dynamic range and the numba builds "
        "of the kernels are outside this check.",
        "TLA+ fitted-state model checked with TLC + exact-statistics replay + trace validation",
    ),
    "C06": (
        "7/C06",
        "CostsDefs.tla, Costs.tla (Identities), Trace_Costs.tla",
        "TLC checks in exact integer arithmetic, on every slice and split of every lattice matrix, that the "
        "squared CUSUM equals the squared-error change score, that the L2 saving is the saving at mean 0, "
        "that the optimum never exceeds a fixed parameter, that splitting never increases the optimal cost "
        "(variance decomposition for the Gaussian costs) and that statistics are additive over pooled rows; "
        "the three adapters over all built-in cost kinds and over a user-defined integer cost, CUSUM and "
        "L2Saving are then evaluated on ALL admissible 3- and 4-point cuts of every emitted matrix and "
        "compared with differences of the specification's cost values; larger lattice data by Trace_Costs.",
        "As C01; the step from the variance decomposition to the Gaussian cost inequality is concavity of log "
        "(stated in the module, then checked on the implementation's values >= -1e-9).",
        "TLA+ exact identities checked with TLC + exact-statistics replay + trace validation",
    ),
    "C17": (
        "7/C17",
        "AnomaliserDefs.tla, Anomaliser.tla, Trace_Anomaliser.tla",
        "TLC checks the model of StatThresholdAnomaliser (clone-and-fit; rows grouped by the dense segment "
        "label; statistic thresholded with strict comparisons; one interval per flagged group) against the "
        "set of segments whose exact rational statistic lies strictly outside the bounds, for every integer "
        "series, changepoint set, statistic (sum, mean, min, max, median, a user count statistic) and pair of "
        "bounds within the constants, and that the user's detector object is never fitted; in a second round the "
        "user reconfigures their detector object and fits the anomaliser again (every pair of changepoint sets): the "
        "answer must follow the detector as configured now; every case is "
        "replayed around a user-defined stub detector for six input representations, and runs around PELT, "
        "MovingWindow and SeededBinarySegmentation are validated by TLC against the segmentation of a fresh "
        "clone of the same detector.",
        "Integer data (so that comparisons of mean/median with the bounds are exact); exhaustive for n<=4 "
        "(quick, 2 of 8 slices) / n<=5,6 (thorough slices); univariate data as the property states.",
        "TLA+ model checked with TLC + spec-to-code replay + trace validation",
    ),
    "C10": (
        "7/C10",
        "Lifecycle.tla, UpdateMergeDefs.tla, UpdateMerge.tla, Trace_UpdateMerge.tla",
        "TLC explores every history up to the length bound of set_params / reset / clone / deepcopy / pickle round "
        "trip / fit / update / predict / transform / transform_scores / fit_predict / fit_transform / update_predict "
        "calls on two detector slots and fit / evaluate calls on their scorer "
        "objects over four datasets (different n and p, partially overlapping index, and two datasets with EXACTLY "
        "the same index and shape but other values), with the scorer "
        "object shared (aliased) or private and fit tuning on none / one / both detectors, modelling each "
        "method by its reads and writes of the hidden state (public scores attribute, scorer refitted in "
        "place, fitted attributes) and checks that every returned value is the term of (hyper-parameters, "
        "training data, argument), that update is a refit on the combined data and that only set_params / "
        "clone change hyper-parameters; the emitted histories (exhaustive slices of length 3, simulated "
        "length 6) are executed on eleven real detector pairs (one of them an anomaliser constructed around the "
        "user's own detector object) and every result is compared bitwise with a fresh object built from the "
        "term alone; get_params() and all input frames are compared before and after every call.  UpdateMerge.tla: "
        "every history fit(B1), update(B2), update(B3) over ALL non-empty label sets (appended, overlapping, re-sent, "
        "interleaved, gappy) against the label-merged table, replayed x 5 index kinds into a user-defined detector "
        "that records what _fit receives and into PELT / tuned MovingWindow against a fresh fit; random histories over "
        "30 labels recorded from the same detector are validated by TLC (Trace_UpdateMerge).",
        "Histories longer than the bound are sampled by TLC simulation; a step that raises ends the replay "
        "of that history; StatThresholdAnomaliser's scorer is excluded from the aliasing steps because it "
        "fits a clone (documented); sktime's clone/reset are exercised, not specified.",
        "TLA+ history model checked with TLC + spec-generated histories replayed against fresh objects",
    ),
    "C11": (
        "7/C11",
        "Representations.tla",
        "TLC enumerates the full product detector x entry point x container x dtype x index kind x column "
        "labels x p x {integer, half-integer values} (3675 admissible grid points; dtypes float64, int64, int32, int16, int8, the integer ones also at magnitudes whose squares leave the dtype) and checks on the model of "
        "the entry-point conversions that the values the algorithm sees are the abstract matrix and that "
        "dense outputs carry the input's own index (negative configurations: look-up by index label, integer "
        "cast); every grid point is replayed with two parameter sets per detector against the canonical "
        "representation (integer locations, labels, scores, fitted thresholds/penalties, index of dense "
        "outputs), and ten interval scorers are fitted/evaluated for every representation.",
        "The specification contributes the grid and the two preservation invariants; the decision is the "
        "replayed comparison with the canonical representation. `update` is compared for equal index labels "
        "(it is defined through them). Exhaustive over the listed grid; one lattice data set per (p, values).",
        "TLA+ grid model checked with TLC + exhaustive replay against the canonical representation",
    ),
    "C18": (
        "7/C18",
        "Generators.tla",
        "TLC checks the model of the generators (validation chain, then the in-place affine transform applied "
        "segment by segment / anomaly by anomaly with Python slice semantics, so a negative position that "
        "slipped through would wrap around in the model as in the code) against the decision function "
        "MustRaise and the row map defined by the segment / covering anomalies, for every argument set within "
        "the constants; every case is replayed (ValueError iff inconsistent; out = a + b*z with z the "
        "generator's own standard-normal output for the same seed; determinism, seed sensitivity, shape, index, "
        "columns; array and scalar parameters; two parameter profiles: all different from the identity map, and "
        "means 0 / standard deviations 1 in some items and columns only); alternating data over a grid incl. mean 0 "
        "and variance 1; outlier rows for all 1<=k<=n<=40 "
        "are validated by TLC against OutlierAdmits (evenly spaced first to last, integer truncation).",
        "Exhaustive for n<=4..6, up to 2..3 positions in -1..n+1, p<=3; changepoints equal to 0, duplicated "
        "or unsorted and n_outliers>n are not judged (the statement does not define them); an exact integer "
        "outlier position may truncate to one less (float representation) -- admitted.",
        "TLA+ model checked with TLC + exhaustive replay + TLC-validated outlier rows",
    ),
    "C15": (
        "7/C15",
        "Penalties.tla, Segmentation.tla (PenaltyMonotone), Pelt.tla (PenaltyMonotoneInv)",
        "TLC evaluates the documented formulas in fixed point (2 p ln n; 2 p sqrt(ln n); 2 p ln(n L); "
        "k + 2 sqrt(k ln n) + 2 ln n; dense = CAPA penalty for p k parameters with zero per-component part; "
        "sparse = 2 ln n plus 2 ln(k p) per component; all times the scale) and validates against them the "
        "fitted threshold_/penalty_ attributes of PELT, Seeded/Circular binary segmentation, MovingWindow "
        "(scale times its own published default function) and CAPA and the four public MVCAPA penalty "
        "families over the grid n in {2,3,10,100,1e4} x p in 1..8 x five scales x parameters per variable "
        "(non-negative, cumulative non-decreasing, proportional to the scale, combined = pointwise minimum of "
        "the recorded dense / sparse / intermediate cumulative penalties); tuned thresholds are validated "
        "against the quantile band on the recorded score vector; TLC proves on every enumerated table that "
        "optimal segmentations for a larger penalty never have more changepoints, and PELT penalty sweeps on "
        "lattice data are checked for monotone counts.",
        "ln / sqrt constants are supplied to TLC by the harness (math.log, math.sqrt: trusted); the chi-square "
        "terms of the intermediate family are taken from the implementation, only its structure is judged; "
        "fixed-point unit 1e-4.",
        "TLA+ fixed-point formulas evaluated by TLC on recorded values + TLC lemma on tables",
    ),
    "C14": (
        "7/C14",
        "Config.tla, Trace_Formats.tla",
        "TLC checks the decision table of Config.tla -- documented hyper-parameter domain, documented minimum "
        "data length, missing values, scorer too coarse for the requested segment length -- against the "
        "order of checks in the constructors, fit and predict, and that OK implies non-empty search ranges "
        "(a seeded interval exists, the first moving-window cut fits); every grid point TLC enumerates "
        "(seven detectors, each hyper-parameter below / at / above its bound incl. min_segment_length = 1, "
        "bandwidth = 1, max_interval_length = 2*min_segment_length, both CAPA scales, data length "
        "MinLen-1..MinLen+2 and MinLen+25, NaN, p in 1..3) is constructed, fitted and predicted and must end "
        "in the expected outcome class; every OK output is validated by TLC with C04's predicate; the non-empty "
        "search range is also OBSERVED on the code (the fitted detector re-run on strictly convex data must score at "
        "least one candidate; Config.SearchCount).",
        "Quick runs 3 of 16 slices of the grid, thorough all; min_detection_interval stays at its default "
        "(docstring and constructor disagree about its range); 'ValueError from a too coarse scorer' is a "
        "permitted, not a required outcome; one lattice data set per grid point.",
        "TLA+ decision-table model checked with TLC + grid replay + TLC-validated outputs",
    ),
    "C04": (
        "7/C04",
        "FormatsDefs.tla (WFChange, WFAnomSeq, WFCapaLengths, WFInside, WFCols), Trace_Formats.tla; invariants of "
        "Pelt.tla, Capa.tla, SeededBinseg.tla, MovingWindow.tla, Anomaliser.tla",
        "The well-formedness conjuncts are TLC-checked invariants of the terminal states of the algorithm "
        "models (segments >= M after back-tracking; CAPA lengths in [M, Mx] or 1, disjoint, inside the data; "
        "greedy picks M apart / disjoint and strictly inside; moving-window peaks inside [b, n-b]), over every "
        "enumerated table; predict outputs of all seven detectors over the zoo's configurations (incl. the "
        "boundary values) x seven lattice data shapes x n from the minimum length up x p in 1..4 are projected "
        "and validated by TLC against the same predicates (Trace_Formats OutputVerdict); C14 sends the OK "
        "outputs of its whole configuration grid through the same validator.",
        "Frame-level facts (RangeIndex 0..K-1, int64, left-closed IntervalIndex, labels 1..K) are read off by the "
        "projection function and passed as booleans; sampled (seeded) data for stage C.",
        "TLA+ invariants of the algorithm models checked with TLC + TLC-validated recorded outputs",
    ),
    "C12": (
        "7/C12",
        "CostsDefs.tla, Costs.tla (Symmetries), Pelt.tla (OptReversal), Trace_Symmetry.tla",
        "TLC checks in exact arithmetic on every lattice matrix that time reversal maps the statistics of "
        "[s,e) to those of [n-e,n-s), that per-column shifts leave all centred second moments unchanged, that a "
        "scale c multiplies them by c^2 and that column permutations permute them, and on every table that the "
        "optimal penalised cost of the reversed table is unchanged; pairs of runs on X and the transformed X "
        "(column permutation, shift, scale 2/3/0.5, reversal) for ten scorers and thirteen detector "
        "configurations (incl. MVCAPA with non-constant point penalties) are related by TLC: values always, "
        "detections (with MVCAPA's columns mapped back) unless only a rounding-level tie decides.",
        "Data with distinct values per column (the variance floor is not scale covariant); the cancellation of "
        "the logarithmic terms under scaling is the module's pencil-and-paper step; moving-window reversal is "
        "C08's.",
        "TLA+ exact symmetry lemmas checked with TLC + TLC-validated pairs of runs",
    ),
}

NOT_YET = {}


def build():
    props = [json.loads(l) for l in open(os.path.join(ROOT, "properties.jsonl"))]
    checks = []
    na = []
    for p in props:
        pid = p["id"]
        if pid in CLAIMED:
            sec, mods, text, note, tech = CLAIMED[pid]
            checks.append({
                "property_id": pid,
                "quick_cmd": f"{PY} {pid} --tier quick",
                "thorough_cmd": f"{PY} {pid} --tier thorough",
                "evidence_file": f"/verif/evidence/{pid}.json",
                "replay_cmd_template": f"{PY} {pid} --replay {{path}}",
                "engine": "tlc",
                "level_claimed": {"category": "model_checking", "text": text,
                                  "design_ref": f"DESIGN.md section {sec}; spec/{mods}"},
                "level_note": note,
                "technique": tech,
            })
        else:
            na.append({"property_id": pid,
                       "reason": NOT_YET.get(pid, "check not built yet in this round; the TLA+ design "
                                             "for it is in DESIGN.md section 7 and nothing is claimed "
                                             "until the specification and its conformance stages exist")})
    man = {
        "version": 1,
        "setup_cmd": "/venv/bin/python -m vf.setup",
        "hooks": {
            "guard": "SKCHANGE_VERIF",
            "enable": "no source hooks: the checks bind through user-defined scorer doubles and the "
                      "public API (DESIGN.md section 4); the checks set SKCHANGE_VERIF=1 for uniformity",
            "baseline_off_cmd": "cd /repo && env -u SKCHANGE_VERIF /venv/bin/python -m pytest -ra -q -p "
                                "no:cacheprovider --timeout=900 --continue-on-collection-errors",
            "source_commits": [],
            "add_only": True,
        },
        "engines": [{
            "name": "tlc", "path": "/opt/veriftools/tla/tla2tools.jar",
            "serves_properties": sorted(CLAIMED),
            "kind_free_text": "explicit-state model checker for the TLA+ specifications in /verif/spec; "
                              "also used as the trace validator (Trace_*.tla)",
        }],
        "checks": checks,
        "not_applicable": na,
        "notes": "Every check: stage A = TLC model checking of the implementation-layer spec against "
                 "the property layer; stage B = TLC-generated cases replayed into the real classes; "
                 "stage C = recorded traces validated by TLC. SPEC-DRIFT lines are informational "
                 "(implementation-layer mismatch with property-layer agreement). Genuine defects of the "
                 "pinned tree were repaired by separate `fix:` commits listed in KNOWN_FINDINGS.txt.",
    }
    with open(os.path.join(ROOT, "MANIFEST.json"), "w") as f:
        json.dump(man, f, indent=1)
    return man


if __name__ == "__main__":
    m = build()
    print("claimed:", [c["property_id"] for c in m["checks"]])
    print("not_applicable:", [c["property_id"] for c in m["not_applicable"]])
