"""Developer tool: one line per evidence file (tier, states, traces, non-trivial, wall time)."""
import glob
import json

for f in sorted(glob.glob("/verif/evidence/C*.json")):
    e = json.load(open(f))
    c = e["coverage"]
    print(f"{e['property_id']} {e['tier']:8s} states={c['states']:>9} traces={c['traces_validated_against_impl']:>7} "
          f"evaluations={c['evaluations']:>7} nontrivial={c['distinct_nontrivial']:>7} wall={e['wall_s']:.0f}s "
          f"neg={c.get('negative_configurations_refuted', '-')} violations={e['violations']}")
