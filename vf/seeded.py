"""Developer tool: ingest and confirm a seeded change produced by an independent sub-agent.

usage: /venv/bin/python -m vf.seeded ingest <name> <agent-worktree> <check> [<check> ...]
       /venv/bin/python -m vf.seeded rerun  <name> [<check> ...]      (re-run checks on a kept change)

ingest: copies <agent-worktree>/out/{patch.diff,demo.py,meta.json} to /verif/seeded/<name>/, then in
a fresh scratch worktree of /repo's HEAD: demo passes without the patch, fails with it, the
repository's test suite still passes exactly the baseline's stable tests with it; finally runs the
named checks against the patched copy and records which ones report a VIOLATION.
"""
from __future__ import annotations

import json
import os
import shutil
import subprocess
import sys
import tempfile
import xml.etree.ElementTree as ET

SEEDED = "/verif/seeded"


def sh(cmd, **kw):
    return subprocess.run(cmd, capture_output=True, text=True, **kw)


def confirm(name, checks, tier="quick"):
    d = os.path.join(SEEDED, name)
    meta = json.load(open(os.path.join(d, "meta.json")))
    tmp = tempfile.mkdtemp(prefix="vfs-", dir="/tmp")
    wt = tmp + "/repo"
    res = {}
    try:
        sh(["git", "-C", "/repo", "worktree", "add", "--detach", "-f", wt, "HEAD"], check=True)
        env = dict(os.environ, PYTHONPATH=wt, PYTHONDONTWRITEBYTECODE="1")
        env.pop("SKCHANGE_VERIF", None)
        r0 = sh(["/venv/bin/python", os.path.join(d, "demo.py")], env=env, cwd=tmp)
        res["demo_without_patch_exit"] = r0.returncode
        ap = sh(["git", "-C", wt, "apply", os.path.join(d, "patch.diff")])
        if ap.returncode != 0:
            ap = sh(["git", "-C", wt, "apply", "-3", os.path.join(d, "patch.diff")])
        res["patch_applies"] = ap.returncode == 0
        if ap.returncode != 0:
            print("PATCH DOES NOT APPLY", ap.stderr[-500:])
            return res
        r1 = sh(["/venv/bin/python", os.path.join(d, "demo.py")], env=env, cwd=tmp)
        res["demo_with_patch_exit"] = r1.returncode
        res["demo_with_patch_tail"] = (r1.stdout + r1.stderr)[-400:]
        xml = tmp + "/junit.xml"
        sh(["/venv/bin/python", "-m", "pytest", "-q", "-p", "no:cacheprovider", "-n", "12", "--timeout=900",
            "--continue-on-collection-errors", f"--junitxml={xml}"], cwd=wt, env=env)
        passed = set()
        for tc in ET.parse(xml).getroot().iter("testcase"):
            if not any(ch.tag in ("failure", "error", "skipped") for ch in tc):
                passed.add(f"{tc.get('classname')}::{tc.get('name')}")
        base = json.load(open("/root/.vp/BASELINE.json"))
        missing = [t for t in base["stable_pass"] if t not in passed]
        res["baseline_tests_still_passing"] = len(base["stable_pass"]) - len(missing)
        res["baseline_tests_missing"] = missing[:5]
        env2 = dict(os.environ, PYTHONPATH=wt, PYTHONDONTWRITEBYTECODE="1")
        res["checks"] = {}
        for c in checks:
            ev = f"/verif/evidence/{c}.json"
            keep = open(ev).read() if os.path.exists(ev) else None
            p = sh(["/venv/bin/python", "-m", "vf.check", c, "--tier", tier], cwd="/verif", env=env2)
            lines = [l for l in p.stdout.splitlines() if l.startswith(("VIOLATION", "OK", "violations=", "SPEC-DRIFT"))]
            res["checks"][c] = {"exit": p.returncode, "output": " | ".join(lines)[:500]}
            if p.returncode == 2:
                res["checks"][c]["stderr"] = p.stderr[-600:]
            if keep is not None:
                open(ev, "w").write(keep)
            elif os.path.exists(ev):
                os.remove(ev)
        shutil.rmtree("/verif/replays", ignore_errors=True)
    finally:
        sh(["git", "-C", "/repo", "worktree", "remove", "--force", wt])
        shutil.rmtree(tmp, ignore_errors=True)
        sh(["git", "-C", "/repo", "worktree", "prune"])
    meta["confirmed"] = res
    meta["repo_head_when_confirmed"] = sh(["git", "-C", "/repo", "rev-parse", "--short", "HEAD"]).stdout.strip()
    json.dump(meta, open(os.path.join(d, "meta.json"), "w"), indent=1)
    print(json.dumps(res, indent=1))
    return res


def main():
    cmd, name = sys.argv[1], sys.argv[2]
    if cmd == "ingest":
        src = sys.argv[3]
        checks = sys.argv[4:]
        d = os.path.join(SEEDED, name)
        os.makedirs(d, exist_ok=True)
        for f in ("patch.diff", "demo.py", "meta.json"):
            shutil.copy(os.path.join(src, "out", f), d)
        confirm(name, checks)
    else:
        confirm(name, sys.argv[3:])


if __name__ == "__main__":
    main()
