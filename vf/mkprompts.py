"""Developer tool: prepare the worktrees and prompt files of a round of seeded changes.

usage: /venv/bin/python -m vf.mkprompts <round-tag> <id> [<id> ...]
The prompt holds ONLY the text of the property (and one-line summaries of ideas already used, so that the
next change is a different one) - nothing else from /verif.
"""
import glob
import json
import subprocess
import sys


def main():
    tag, ids = sys.argv[1], sys.argv[2:]
    props = {json.loads(l)["id"]: json.loads(l) for l in open("/verif/properties.jsonl")}
    tmpl = open("/verif/seeded/PROMPT_TEMPLATE.txt").read()
    for pid in ids:
        ideas = []
        for d in sorted(glob.glob(f"/verif/seeded/{pid}-*")):
            m = json.load(open(d + "/meta.json"))
            ideas.append(m["summary"][:230].replace("\n", " "))
        wt = f"/tmp/{tag}-{pid}"
        subprocess.run(["git", "-C", "/repo", "worktree", "add", "--detach", "-f", wt, "HEAD"], check=True,
                       capture_output=True)
        subprocess.run(["mkdir", "-p", wt + "/out"])
        p = props[pid]
        text = (f"{pid}: {p['title']}\n\nStatement: {p['statement']}\n\nQuantified over: {p['quantifier']['text']}"
                f"\n\nWhy tests cannot settle it: {p['why_tests_cant']}\n\nAnchored in: "
                f"{json.dumps(p['anchors']['files'])}; mechanisms: {json.dumps(p['anchors']['mechanism'])}")
        pr = tmpl.replace("WORKTREE", wt).replace("PROPERTY_TEXT", text)
        pr += ("\n\nIdeas already used by others for this property (choose a DIFFERENT function or mechanism, ideally "
               "in a different file or code path that the property also depends on):\n- " + "\n- ".join(ideas))
        pr += "\n\nYou have about 20 minutes; prefer a simple, well-confirmed change over an elaborate one."
        open(f"/tmp/prompt-{tag}-{pid}.txt", "w").write(pr)
        print(pid, wt, len(pr))


if __name__ == "__main__":
    main()
