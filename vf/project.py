"""Projection of pandas outputs to the integers the specifications talk about (shared by C04/C05/...)."""

from __future__ import annotations

import numpy as np
import pandas as pd


def index_kinds(n: int, which=None):
    """Supported index types, all of length n, with labels distinct from positions."""
    kinds = {
        "default": pd.RangeIndex(n),
        "offset": pd.RangeIndex(5, 5 + n),
        "step": pd.RangeIndex(0, 3 * n, 3),
        "neg": pd.RangeIndex(-n, 0),
        "datetime": pd.date_range("2021-03-01", periods=n, freq="D"),
        "period": pd.period_range("2021-03", periods=n, freq="M"),
        # repeated index VALUES (several rows per day / per month, e.g. hourly data indexed by its day): accepted by the
        # library's input check (monotonic, not necessarily unique); positions are what the outputs speak about
        "datetime_dup": pd.DatetimeIndex([pd.Timestamp("2021-03-01") + pd.Timedelta(days=i // 3) for i in range(n)]),
        "period_dup": pd.PeriodIndex([pd.Period("2021-03", freq="M") + i // 2 for i in range(n)]),
    }
    return kinds if which is None else {k: kinds[k] for k in which}


def sparse_kind(df: pd.DataFrame) -> str:
    if "icolumns" in df.columns:
        return "subset"
    if len(df.columns) >= 1 and isinstance(df["ilocs"].dtype, pd.IntervalDtype):
        return "anomaly"
    return "change"


def project_sparse(df: pd.DataFrame, kind: str):
    """-> (list projection, frame_ok): positions / [s, e] / [s, e, cols]."""
    ok = isinstance(df, pd.DataFrame) and isinstance(df.index, pd.RangeIndex) and \
        df.index.start == 0 and df.index.step == 1 and len(df.index) == len(df)
    if kind == "change":
        ok = ok and list(df.columns) == ["ilocs"] and df["ilocs"].dtype == np.int64
        return [int(x) for x in df["ilocs"].to_numpy()], bool(ok)
    iv = df["ilocs"].array
    ok = ok and isinstance(df["ilocs"].dtype, pd.IntervalDtype) and iv.closed == "left" and \
        np.issubdtype(iv.left.dtype, np.integer) and np.issubdtype(iv.right.dtype, np.integer) and \
        "labels" in df.columns and [int(x) for x in df["labels"]] == list(range(1, len(df) + 1))
    rows = [[int(l), int(r)] for l, r in zip(iv.left, iv.right)]
    if kind == "subset":
        cols = [[int(c) for c in np.asarray(x).tolist()] for x in df["icolumns"]]
        rows = [r + [c] for r, c in zip(rows, cols)]
    return rows, bool(ok)


def project_dense(df: pd.DataFrame, kind: str):
    if kind == "subset":
        return [[int(v) for v in row] for row in df.to_numpy()]
    return [int(v) for v in df["labels"].to_numpy()]


def same_index(a, b) -> bool:
    try:
        return len(a) == len(b) and type(a) is type(b) and bool((a == b).all()) and a.equals(b)
    except Exception:
        return False
