"""Closed forms of the property statements applied to the exact sufficient statistics that TLC emits
(Costs.tla: len, s1[j], s2[j][k], scatter determinant).  This is the only place where math.log is
applied on the specification side (trusted base, DESIGN section 9)."""

from __future__ import annotations

import math
from fractions import Fraction

import numpy as np

FLOOR = 1e-16
SINGULAR = "singular"


def _fr(x):
    return Fraction(x).limit_denominator(10 ** 9) if isinstance(x, float) else Fraction(x)


def bc(param, p):
    """Broadcast a scalar / length-1 / length-p parameter to p entries."""
    a = np.atleast_1d(np.asarray(param, dtype=float))
    return [float(a[0])] * p if len(a) == 1 else [float(v) for v in a]


def l2_opt(st, p):
    return [float(Fraction(st["len"] * st["s2"][j][j] - st["s1"][j] ** 2, st["len"])) for j in range(p)]


def l2_fixed(st, p, mu):
    mu = bc(mu, p)
    return [float(_fr(st["s2"][j][j]) - 2 * _fr(mu[j]) * st["s1"][j] + st["len"] * _fr(mu[j]) ** 2) for j in range(p)]


def var_opt(st, p):
    out = []
    n = st["len"]
    for j in range(p):
        num = n * st["s2"][j][j] - st["s1"][j] ** 2
        var = float(Fraction(num, n * n)) if num > 0 else FLOOR  # exact zero variance => documented floor
        out.append(n * math.log(2 * math.pi * var) + n)
    return out


def var_fixed(st, p, mu, var):
    mu, var = bc(mu, p), bc(var, p)
    n = st["len"]
    return [n * math.log(2 * math.pi * var[j]) + l2_fixed(st, p, mu)[j] / var[j] for j in range(p)]


def cov_opt(st, p):
    """-> [value] or SINGULAR (exact determinant 0: RuntimeError or any finite number admitted)."""
    n = st["len"]
    det = st["det"]
    if det <= 0:
        return SINGULAR
    logdet = math.log(det) - 2 * p * math.log(n)  # det(cov) = det(scatter) / n^(2p)
    return [n * p * math.log(2 * math.pi) + n * logdet + p * n]


def cov_fixed(st, p, mu, cov):
    mu = np.asarray(bc(mu, p))
    cov = np.asarray(cov, dtype=float) * np.eye(p) if np.ndim(cov) == 0 else np.asarray(cov, dtype=float)
    n = st["len"]
    s1 = np.asarray(st["s1"], dtype=float)
    s2 = np.asarray(st["s2"], dtype=float)
    smu = s2 - np.outer(mu, s1) - np.outer(s1, mu) + n * np.outer(mu, mu)
    qf = float(np.trace(np.linalg.inv(cov) @ smu))
    return [n * p * math.log(2 * math.pi) + n * math.log(np.linalg.det(cov)) + qf]


def add_stats(a, b):
    p = len(a["s1"])
    return {"len": a["len"] + b["len"], "s1": [a["s1"][j] + b["s1"][j] for j in range(p)],
            "s2": [[a["s2"][j][k] + b["s2"][j][k] for k in range(p)] for j in range(p)], "det": None}


def pooled_det(st, p):
    """Scatter determinant of pooled statistics (exact integer arithmetic, p <= 3)."""
    n = st["len"]
    sc = [[n * st["s2"][j][k] - st["s1"][j] * st["s1"][k] for k in range(p)] for j in range(p)]
    if p == 1:
        return sc[0][0]
    if p == 2:
        return sc[0][0] * sc[1][1] - sc[0][1] * sc[1][0]
    d2 = lambda a, b, c, d: a * d - b * c
    return (sc[0][0] * d2(sc[1][1], sc[1][2], sc[2][1], sc[2][2]) - sc[0][1] * d2(sc[1][0], sc[1][2], sc[2][0], sc[2][2])
            + sc[0][2] * d2(sc[1][0], sc[1][1], sc[2][0], sc[2][1]))


def stat_at(case, s, e):
    row = case["stats"][str(s)] if isinstance(case["stats"], dict) else case["stats"][s]
    return row[e - 1]


def close(a, b, rtol=1e-9):
    return abs(a - b) <= rtol * max(1.0, abs(b))


# cost kinds: name -> (factory, min_size(p), oracle(st, p))
def cost_kinds(p):
    from skchange.costs import GaussianCovCost, GaussianVarCost, L2Cost

    kinds = [
        ("L2Cost()", lambda: L2Cost(), 1, lambda st: l2_opt(st, p)),
        ("L2Cost(1)", lambda: L2Cost(param=1.0), 1, lambda st: l2_fixed(st, p, 1.0)),
        ("L2Cost(0.5)", lambda: L2Cost(param=0.5), 1, lambda st: l2_fixed(st, p, 0.5)),
        ("GaussianVarCost()", lambda: GaussianVarCost(), 2, lambda st: var_opt(st, p)),
        ("GaussianVarCost((0,1))", lambda: GaussianVarCost(param=(0.0, 1.0)), 2, lambda st: var_fixed(st, p, 0.0, 1.0)),
        ("GaussianVarCost((1,2))", lambda: GaussianVarCost(param=(1.0, 2.0)), 2, lambda st: var_fixed(st, p, 1.0, 2.0)),
        ("GaussianCovCost()", lambda: GaussianCovCost(), p + 1, lambda st: cov_opt(st, p)),
        ("GaussianCovCost((0,1))", lambda: GaussianCovCost(param=(0.0, 1.0)), p + 1, lambda st: cov_fixed(st, p, 0.0, 1.0)),
    ]
    if p >= 2:
        mu = [float(j) for j in range(p)]  # distinct per-column entries: broadcasting slips show
        var = [float(j + 1) for j in range(p)]
        cov = np.eye(p) * 2.0
        cov[0, 1] = cov[1, 0] = 1.0
        if p >= 3:
            cov[1, 2] = cov[2, 1] = -1.0
        kinds += [
            ("L2Cost(per-column)", lambda: L2Cost(param=np.array(mu)), 1, lambda st: l2_fixed(st, p, mu)),
            ("GaussianVarCost(per-column)", lambda: GaussianVarCost(param=(np.array(mu), np.array(var))), 2,
             lambda st: var_fixed(st, p, mu, var)),
            ("GaussianCovCost((mu,cov))", lambda: GaussianCovCost(param=(np.array(mu), cov.copy())), p + 1,
             lambda st: cov_fixed(st, p, mu, cov)),
        ]
    return kinds
