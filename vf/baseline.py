"""Run the repository's baseline test suite (guard off) and compare with /root/.vp/BASELINE.json.

usage: /venv/bin/python -m vf.baseline [-n WORKERS]
exit 0 iff every test in BASELINE.stable_pass passes.
"""
import json
import os
import subprocess
import sys
import tempfile
import xml.etree.ElementTree as ET


def main():
    fast = []
    if len(sys.argv) > 2 and sys.argv[1] == "-n":
        fast = ["-n", sys.argv[2]]
    base = json.load(open("/root/.vp/BASELINE.json"))
    env = dict(os.environ)
    env.pop("SKCHANGE_VERIF", None)
    with tempfile.TemporaryDirectory() as td:
        xml = os.path.join(td, "junit.xml")
        cmd = ["/venv/bin/python", "-m", "pytest", "-ra", "-q", "-p", "no:cacheprovider",
               "--timeout=900", "--continue-on-collection-errors", f"--junitxml={xml}", *fast]
        proc = subprocess.run(cmd, cwd="/repo", env=env, capture_output=True, text=True)
        print(proc.stdout[-600:])
        passed = set()
        for tc in ET.parse(xml).getroot().iter("testcase"):
            if not any(ch.tag in ("failure", "error", "skipped") for ch in tc):
                passed.add(f"{tc.get('classname')}::{tc.get('name')}")
    missing = [t for t in base["stable_pass"] if t not in passed]
    print(f"baseline stable_pass={len(base['stable_pass'])} passing_now={len(base['stable_pass']) - len(missing)}")
    for m in missing[:20]:
        print("MISSING", m)
    return 1 if missing else 0


if __name__ == "__main__":
    sys.exit(main())
