"""User-defined "programs" for the detectors: table-valued scorers that log every evaluate call.

They are ordinary subclasses of the library's public base classes, so the detectors treat them
like any user-supplied cost / saving / score.  A table double answers EVERY syntactically valid
cut: the table's value where one is defined, an injective hash of the cut (far outside the
table's range) elsewhere -- so an implementation that scores the wrong window produces visibly
wrong outputs, while one that merely evaluates extra cuts and ignores them is not penalised.

The call log is kept in a module-level registry keyed by `log_id` (plain hyper-parameter), so it
survives sktime's clone().
"""

from __future__ import annotations

import itertools

import numpy as np

from skchange.anomaly_scores.base import BaseLocalAnomalyScore, BaseSaving
from skchange.change_scores.base import BaseChangeScore
from skchange.costs.base import BaseCost

LOGS: dict = {}
_ids = itertools.count(1)
HASH_BASE = 1_000_003


def new_log() -> int:
    i = next(_ids)
    LOGS[i] = []
    return i


def take_log(i: int) -> list:
    return LOGS.pop(i, [])


def hash_value(cut) -> float:
    v = HASH_BASE
    for k, c in enumerate(cut):
        v += int(c) * (1009 ** k) * 17
    return float(v)


class _TableMixin:
    """table: dict mapping cut tuple -> value or list of p values."""

    def _lookup(self, cuts: np.ndarray) -> np.ndarray:
        out = self._lookup_float(cuts)
        # a user-defined scorer may legitimately return an INTEGER-typed array (count costs, integer tables)
        if getattr(self, "int_out", False) and np.all(out == np.round(out)):
            return out.astype(np.int64)
        return out

    def _lookup_float(self, cuts: np.ndarray) -> np.ndarray:
        p = self.p
        out = np.zeros((len(cuts), p))
        rows = []
        for i, cut in enumerate(cuts):
            key = tuple(int(c) for c in cut)
            rows.append(key)
            v = self.table.get(key)
            if v is None:
                out[i, :] = 0.0
                out[i, 0] = hash_value(key) * self.hash_sign
            else:
                out[i, :] = v
        if self.log_id is not None and self.log_id in LOGS:
            LOGS[self.log_id].append(rows)
        return out


class TableCost(_TableMixin, BaseCost):
    """Cost given by a table over intervals (s, e)."""

    hash_sign = 1.0

    def __init__(self, table=None, p=1, size=1, log_id=None, param=None, int_out=False):
        self.table = table if table is not None else {}
        self.p = p
        self.size = size
        self.log_id = log_id
        self.int_out = int_out
        super().__init__(param)

    @property
    def min_size(self):
        return self.size

    def _fit(self, X, y=None):
        self.n_ = len(X)
        return self

    def _evaluate(self, cuts):
        return self._lookup(cuts)


class TableSaving(_TableMixin, BaseSaving):
    """Saving given by a table over intervals (s, e); one column per component."""

    hash_sign = 1.0

    def __init__(self, table=None, p=1, size=1, log_id=None, n_params=1, int_out=False):
        self.table = table if table is not None else {}
        self.p = p
        self.size = size
        self.log_id = log_id
        self.n_params = n_params
        self.int_out = int_out
        super().__init__()

    @property
    def min_size(self):
        return self.size

    def get_param_size(self, p):
        return self.n_params * p

    def _fit(self, X, y=None):
        self.n_ = len(X)
        return self

    def _evaluate(self, cuts):
        return self._lookup(cuts)


class TableChangeScore(_TableMixin, BaseChangeScore):
    """Change score given by a table over cuts (s, k, e)."""

    hash_sign = 1.0

    def __init__(self, table=None, p=1, size=1, log_id=None, int_out=False):
        self.table = table if table is not None else {}
        self.p = p
        self.size = size
        self.log_id = log_id
        self.int_out = int_out
        super().__init__()

    @property
    def min_size(self):
        return self.size

    def _fit(self, X, y=None):
        self.n_ = len(X)
        return self

    def _evaluate(self, cuts):
        return self._lookup(cuts)


class TableLocalScore(_TableMixin, BaseLocalAnomalyScore):
    """Local anomaly score given by a table over cuts (s, a, b, e)."""

    hash_sign = 1.0

    def __init__(self, table=None, p=1, size=1, log_id=None, int_out=False):
        self.table = table if table is not None else {}
        self.p = p
        self.size = size
        self.log_id = log_id
        self.int_out = int_out
        super().__init__()

    @property
    def min_size(self):
        return self.size

    def _fit(self, X, y=None):
        self.n_ = len(X)
        return self

    def _evaluate(self, cuts):
        return self._lookup(cuts)


def logged(cls):
    """Subclass of a built-in scorer that logs the cuts of every evaluate call."""

    class Logged(cls):
        def __init__(self, *args, log_id=None, **kw):
            self.log_id = log_id
            super().__init__(*args, **kw)

        def _evaluate(self, cuts):
            if self.log_id is not None and self.log_id in LOGS:
                LOGS[self.log_id].append([tuple(int(c) for c in cut) for cut in cuts])
            return super()._evaluate(cuts)

    Logged.__name__ = "Logged" + cls.__name__
    return Logged


def split_columns(value: int, p: int, rng) -> list:
    """Split an integer into p integer column parts that sum to it (exercises column aggregation)."""
    if p == 1:
        return [float(value)]
    parts = [int(rng.integers(-2, 3)) for _ in range(p - 1)]
    parts.append(int(value) - sum(parts))
    return [float(x) for x in parts]
