"""Developer tool (not a registered check): run checks against a changed copy of the repository.

usage:
  /venv/bin/python -m vf.mutants --revert <commit> C03 [C04 ...]      # a fix commit undone
  /venv/bin/python -m vf.mutants --patch <file.diff> C03 [...]        # a seeded change
  options: --tier quick|thorough   --tests  (also run the repository's own test suite on the copy)

The copy lives under /tmp/vfm-<pid>, is used through PYTHONPATH (which takes precedence over the
editable install of /repo) and is removed afterwards.  Registered checks never do this: they
always import /repo's working tree.
"""
from __future__ import annotations

import argparse
import os
import shutil
import subprocess
import sys
import tempfile


def main():
    ap = argparse.ArgumentParser()
    ap.add_argument("--revert")
    ap.add_argument("--patch")
    ap.add_argument("--tier", default="quick")
    ap.add_argument("--tests", action="store_true")
    ap.add_argument("checks", nargs="*")
    a = ap.parse_args()
    tmp = tempfile.mkdtemp(prefix="vfm-", dir="/tmp")
    rc_all = {}
    try:
        subprocess.run(["git", "-C", "/repo", "worktree", "add", "--detach", "-f", tmp + "/repo", "HEAD"],
                       check=True, capture_output=True)
        copy = tmp + "/repo"
        if a.revert:
            diff = subprocess.run(["git", "-C", "/repo", "show", a.revert], capture_output=True, text=True, check=True).stdout
            subprocess.run(["git", "-C", copy, "apply", "-R", "-"], input=diff, text=True, check=True)
        if a.patch:
            subprocess.run(["git", "-C", copy, "apply", os.path.abspath(a.patch)], check=True)
        env = dict(os.environ, PYTHONPATH=copy, PYTHONDONTWRITEBYTECODE="1")
        probe = subprocess.run(["/venv/bin/python", "-c", "import skchange;print(skchange.__file__)"],
                               env=env, capture_output=True, text=True).stdout.strip()
        print("mutant skchange at", probe)
        assert probe.startswith(copy), probe
        if a.tests:
            p = subprocess.run(["/venv/bin/python", "-m", "pytest", "-q", "-p", "no:cacheprovider", "-n", "12",
                                "--timeout=900", "-x", "-q"], cwd=copy, env=env, capture_output=True, text=True)
            print("repository tests:", p.stdout.strip().splitlines()[-1] if p.stdout.strip() else p.stderr[-300:])
        for c in a.checks:
            # evidence of mutant runs must not overwrite the real evidence
            keep = None
            ev = f"/verif/evidence/{c}.json"
            if os.path.exists(ev):
                keep = open(ev).read()
            p = subprocess.run(["/venv/bin/python", "-m", "vf.check", c, "--tier", a.tier], cwd="/verif",
                               env=env, capture_output=True, text=True)
            tail = [l for l in p.stdout.splitlines() if l.startswith(("VIOLATION", "OK", "KNOWN", "SPEC-DRIFT", "violations="))]
            print(f"[{c}] exit={p.returncode}", " | ".join(tail)[:600])
            if p.returncode == 2:
                print(p.stderr[-1500:])
            rc_all[c] = p.returncode
            if keep is not None:
                open(ev, "w").write(keep)
            elif os.path.exists(ev):
                os.remove(ev)
    finally:
        subprocess.run(["git", "-C", "/repo", "worktree", "remove", "--force", tmp + "/repo"], capture_output=True)
        shutil.rmtree(tmp, ignore_errors=True)
        subprocess.run(["git", "-C", "/repo", "worktree", "prune"], capture_output=True)
    return 0


if __name__ == "__main__":
    sys.exit(main())
