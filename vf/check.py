"""CLI: /venv/bin/python -m vf.check <ID> --tier quick|thorough [--replay file]

Exit 0: property held on everything explored (KNOWN-FINDING / SPEC-DRIFT lines are informational).
Exit 1: `VIOLATION property=<id> replay=<path>` printed.
Exit 2: machinery failure (TLC error, missing verdict, vacuous model) -- never a violation.
"""

from __future__ import annotations

import argparse
import importlib
import json
import os
import sys
import traceback
import warnings


def _selftest(prop: str, rc: int) -> int:
    """Thorough tier: the negative configurations of this property's specs must be refuted (vacuity guard)."""
    from . import selftest
    from .tlc import Workdir

    with Workdir(prop + "-selftest") as wd:
        fails = selftest.run_for([prop], wd)
    n = len(selftest.NEG.get(prop, []))
    from .common import EVID_DIR

    ev_path = os.path.join(EVID_DIR, f"{prop}.json")   # the tree this module runs from (/verif, or a snapshot of it)
    try:
        ev = json.load(open(ev_path))
        ev["coverage"]["negative_configurations"] = n
        ev["coverage"]["negative_configurations_refuted"] = n - len(fails)
        json.dump(ev, open(ev_path, "w"), indent=1)
    except Exception:
        pass
    for f in fails:
        print(f"MACHINERY-FAILURE property={prop} {f}", file=sys.stderr)
    return 2 if fails and rc == 0 else rc


def main(argv=None) -> int:
    ap = argparse.ArgumentParser()
    ap.add_argument("prop")
    ap.add_argument("--tier", default=os.environ.get("VERIF_TIER", "quick"),
                    choices=["quick", "thorough"])
    ap.add_argument("--replay", default=None)
    args = ap.parse_args(argv)
    warnings.filterwarnings("ignore")
    os.environ.setdefault("PYTHONHASHSEED", "0")
    os.environ.setdefault("SKCHANGE_VERIF", "1")
    prop = args.prop.upper()
    try:
        mod = importlib.import_module(f"vf.checks.{prop.lower()}")
    except ModuleNotFoundError:
        print(f"no check for {prop}", file=sys.stderr)
        return 2
    try:
        if args.replay:
            with open(args.replay) as f:
                body = json.load(f)
            return mod.replay(body)
        rc = mod.run(args.tier)
        if args.tier == "thorough":
            rc = _selftest(prop, rc)
        return rc
    except Exception:
        traceback.print_exc()
        print(f"MACHINERY-FAILURE property={prop}", file=sys.stderr)
        return 2


if __name__ == "__main__":
    sys.exit(main())
