"""CLI: /venv/bin/python -m vf.check <ID> --tier quick|thorough [--replay file]

Exit 0: property held on everything explored (KNOWN-FINDING / SPEC-DRIFT lines are informational).
Exit 1: `VIOLATION property=<id> replay=<path>` printed.
Exit 2: machinery failure (TLC error, missing verdict, vacuous model) -- never a violation.
"""

from __future__ import annotations

import argparse
import importlib
import json
import os
import sys
import traceback
import warnings


def main(argv=None) -> int:
    ap = argparse.ArgumentParser()
    ap.add_argument("prop")
    ap.add_argument("--tier", default=os.environ.get("VERIF_TIER", "quick"),
                    choices=["quick", "thorough"])
    ap.add_argument("--replay", default=None)
    args = ap.parse_args(argv)
    warnings.filterwarnings("ignore")
    os.environ.setdefault("PYTHONHASHSEED", "0")
    os.environ.setdefault("SKCHANGE_VERIF", "1")
    prop = args.prop.upper()
    try:
        mod = importlib.import_module(f"vf.checks.{prop.lower()}")
    except ModuleNotFoundError:
        print(f"no check for {prop}", file=sys.stderr)
        return 2
    try:
        if args.replay:
            with open(args.replay) as f:
                body = json.load(f)
            return mod.replay(body)
        return mod.run(args.tier)
    except Exception:
        traceback.print_exc()
        print(f"MACHINERY-FAILURE property={prop}", file=sys.stderr)
        return 2


if __name__ == "__main__":
    sys.exit(main())
