"""CostParams.tla bound to the cost classes (growth beyond the listed properties, reported by the C01 check).

TLC enumerates every (cost, p, shape of the fixed mean, shape / sign of the fixed variance or covariance) and
decides "ValueError at fit" or "OK" with the per-column parameter the value is defined with.  The harness
passes each grid point to the real class in several spellings of the same parameter (python int / float /
numpy scalar; list / tuple / integer array / float array) and compares
  * the outcome class: ValueError iff the specification says so -- a difference is reported as SPEC-DRIFT
    (informational: accepting or rejecting a parameter shape is not part of C01's statement);
  * for accepted parameters, every admissible interval's value with the property's definition evaluated
    directly on the rows with the specification's per-column parameter -- a difference IS a C01 violation
    (clause broadcast_value_differs_from_definition).
"""

from __future__ import annotations

import numpy as np

from . import stages
from .costs_oracle import close, cov_fixed, l2_fixed, var_fixed

NEG = [("cost-params-" + b, "CostParams", dict(Bound=b, Emit=False, MaxP=3), ["Total", "Broadcastable"], "Init", None)
       for b in ("var_nonneg", "mean_any_len", "cov_diag_only")]


def _stats(rows):
    R = np.asarray(rows, dtype=object)
    n, p = len(rows), len(rows[0])
    return {"len": n, "s1": [int(sum(r[j] for r in rows)) for j in range(p)],
            "s2": [[int(sum(r[j] * r[k] for r in rows)) for k in range(p)] for j in range(p)], "det": None}


def spellings(case):
    """The same parameter object written in the ways a caller may write it."""
    mk, sk = case["mkind"], case["skind"]
    if mk == "scalar":
        means = [int(case["mean"][0]), float(case["mean"][0]), np.float64(case["mean"][0]), np.int64(case["mean"][0])]
    else:
        m = case["mean"]
        means = [np.array(m, dtype=float), list(m), tuple(float(v) for v in m), np.array(m, dtype=np.int64)]
    if case["cost"] == "L2Cost":
        return [("L2Cost", mu) for mu in means]
    if case["cost"] == "GaussianVarCost":
        v = case["var"]
        if sk.startswith("scalar"):
            seconds = [int(v[0]), float(v[0]), np.float64(v[0])]
        else:
            seconds = [np.array(v, dtype=float), list(v), np.array(v, dtype=np.int64)]
    else:
        if sk.startswith("scalar"):
            d = case["p"]
            val = {"scalar_pos": 2, "scalar_zero": 0, "scalar_neg": -1}[sk]
            seconds = [int(val), float(val), np.float64(val)]
        elif sk == "vector":
            seconds = [np.arange(1.0, case["p"] + 1.0), [1.0] * case["p"]]
        else:
            c = case["cov"]
            seconds = [np.array(c, dtype=float), [list(r) for r in c], np.array(c, dtype=np.int64)]
    out = []
    for i in range(max(len(means), len(seconds))):
        out.append((case["cost"], (means[i % len(means)], seconds[i % len(seconds)])))
    return out


def replay_case(case, seed=0):
    """-> (drift messages, C01 failures, number of values compared)"""
    from skchange.costs import GaussianCovCost, GaussianVarCost, L2Cost

    cls = {"L2Cost": L2Cost, "GaussianVarCost": GaussianVarCost, "GaussianCovCost": GaussianCovCost}[case["cost"]]
    p = case["p"]
    rng = np.random.default_rng(1000 * seed + 17 * p + len(case["mkind"]) + 3 * len(case["skind"]))
    n = 7
    Xi = rng.integers(-3, 4, size=(n, p))
    drift, fails, compared = [], [], 0
    for X in (Xi.astype(float), Xi.astype(np.int64)):
        for name, param in spellings(case):
            what = {"cost": name, "p": p, "mkind": case["mkind"], "skind": case["skind"], "param": repr(param)[:160],
                    "dtype": str(X.dtype)}
            keep = X.copy()
            try:
                cost = cls(param=param)
            except Exception as e:  # the constructor stores the parameter unchecked
                drift.append(f"constructor raises {type(e).__name__} for {what}")
                continue
            try:
                cost.fit(X)
                outcome = "OK"
            except ValueError:
                outcome = "ValueError@fit"
            except Exception as e:
                outcome = f"{type(e).__name__}@fit"
            if outcome != case["expect"]:
                drift.append(f"fit of {name} with mean {case['mkind']} / second parameter {case['skind']} (p={p}): "
                             f"{outcome}, CostParams.tla expects {case['expect']} [{what['param']}, {what['dtype']}]")
                continue
            if outcome != "OK":
                continue
            ms = cost.min_size if cost.min_size is not None else 1
            cuts = np.array([[s, e] for s in range(n) for e in range(s + ms, n + 1)])
            got = cost.evaluate(cuts)
            if not np.array_equal(X, keep):
                fails.append(("input_data_modified", what))
            for (s, e), row in zip(cuts, got):
                st = _stats([[int(v) for v in r] for r in Xi[s:e]])
                if name == "L2Cost":
                    want = l2_fixed(st, p, case["effmean"])
                elif name == "GaussianVarCost":
                    want = var_fixed(st, p, case["effmean"], case["effvar"])
                else:
                    want = cov_fixed(st, p, case["effmean"], case["effcov"])
                compared += len(want)
                if len(row) != len(want) or not all(close(float(a), float(b)) for a, b in zip(row, want)):
                    fails.append(("broadcast_value_differs_from_definition",
                                  {**what, "interval": [int(s), int(e)], "got": [float(v) for v in row], "definition": want}))
                    break
    return drift, fails, compared


def stage(chk, tier, wd):
    stages.model_check(chk, "CostParams", dict(Bound="code", Emit=False, MaxP=3), ["Total", "Broadcastable"], wd=wd,
                       label="A:cost-params", coverage=True, expect_actions=("CheckMean", "CheckVar", "CheckCov", "Precompute"))
    cases = stages.emit_cases(chk, "CostParams", dict(Bound="code", MaxP=3), wd=wd, label="B:cost-params")
    if len(cases) < 200:
        chk.machinery(f"CostParams emitted only {len(cases)} grid points")
    compared = ndrift = 0
    for c in cases:
        drift, fails, k = replay_case(c, chk.seed)
        compared += k
        chk.case({"stage": "cost-params", "cost": c["cost"], "p": c["p"], "mkind": c["mkind"], "skind": c["skind"],
                  "expect": c["expect"]}, nontrivial=(c["expect"] == "OK" and c["p"] > 1),
                 key="cp-" + "-".join([c["cost"], str(c["p"]), c["mkind"], c["skind"]]))
        chk.traces += 1
        for d in drift[:1]:
            ndrift += 1
            if ndrift <= 3:
                chk.spec_drift(d)
        for clause, obs in fails:
            chk.violation({"stage": "cost-params", "cost_params_case": c, "observed": obs}, clause,
                          {"cost": obs.get("cost"), "clause": clause, "mkind": c["mkind"], "skind": c["skind"]})
    chk.extra["cost_params_values_compared"] = compared
    chk.extra["cost_params_grid_points_with_drift"] = ndrift
