"""Shared machinery of C07 (seeded binary segmentation) and C09 (circular binary segmentation)."""

from __future__ import annotations

import itertools
import math
from concurrent.futures import ProcessPoolExecutor

import numpy as np

from . import stages
from .common import NonTermination, sha, time_limit, touch_same_index

INVS = ["GreedyCharacterisation", "GuidedIsMembership", "Terminates", "NoDuplicates", "Supported", "NothingLeft", "Spacing",
        "ThresholdMonotone", "EmptyInnerScoresZero"]


def consts(mode, **kw):
    c = dict(N=6, M=1, L=6, K=3 if mode == "contains" else 2, V=2, Thr2s={0, 1, 2, 3}, Mode=mode, RemoveTest="code", Exceed="strict",
             Emit=False, NSlices=1, Slice=0)
    c.update(kw)
    return c


def stage_a_configs(mode, tier):
    if mode == "contains":
        q = [("N5-M1-K3", consts(mode, N=5, L=5)), ("N6-M2-K3", consts(mode, N=6, M=2, L=6)),
             ("N6-M1-K2", consts(mode, N=6, K=2, V=3, Thr2s={1, 2, 4, 5}))]
        t = [("N6-M1-K3", consts(mode)), ("N7-M2-K3", consts(mode, N=7, M=2, L=7)),
             ("N7-M1-K2", consts(mode, N=7, L=5, K=2, V=3, Thr2s={1, 2, 4, 5})), ("N8-M3-K3", consts(mode, N=8, M=3, L=8))]
    else:
        q = [("N6-M1-K2", consts(mode)), ("N5-M1-K2-V3", consts(mode, N=5, L=5, V=3, Thr2s={1, 2, 4, 5})),
             ("N7-M2-K2", consts(mode, N=7, M=2, L=7))]
        t = [("N6-M1-K2", consts(mode)), ("N7-M2-K2", consts(mode, N=7, M=2, L=7, V=3, Thr2s={1, 2, 4, 5})),
             ("N5-M1-K3", consts(mode, N=5, L=5, K=3)), ("N7-M1-K2-L5", consts(mode, N=7, L=5))]
    return q if tier == "quick" else t


# ------------------------------------------------------------------------------ stage B
def replay_greedy(case):
    """TLC case -> the module-level greedy selection function."""
    from skchange.anomaly_detectors.circular_binseg import greedy_anomaly_selection
    from skchange.change_detectors.seeded_binseg import greedy_changepoint_selection

    mode = case["mode"]
    starts = np.array(case["starts"], dtype=np.int64)
    ends = np.array(case["ends"], dtype=np.int64)
    scores = np.array(case["scores"], dtype=float)
    thr = case["thr2"] / 2.0
    fails = []
    try:
      with time_limit(10):
        if mode == "contains":
            picks = np.array(case["picks"], dtype=np.int64)
            got = tuple(int(c) for c in greedy_changepoint_selection(scores, picks, starts, ends, thr))
            admitted = {tuple(sorted(a)) for a in case["admitted"]}
            ok = got in admitted and list(got) == sorted(got)
        else:
            a = np.array([p[0] for p in case["picks"]], dtype=np.int64)
            b = np.array([p[1] for p in case["picks"]], dtype=np.int64)
            got = tuple((int(x), int(y)) for x, y in greedy_anomaly_selection(scores, a, b, starts, ends, thr))
            admitted = {tuple(sorted(tuple(x) for x in s)) for s in case["admitted"]}
            ok = got in admitted and list(got) == sorted(got)
        if not ok:
            fails.append(("not_a_greedy_result", {"got": [list(g) if isinstance(g, tuple) else g for g in got]}))
    except NonTermination as e:
        fails.append(("does_not_terminate", {"error": str(e)}))
    except Exception as e:
        fails.append(("raises", {"error": repr(e)[:200]}))
    nontrivial = len(case["admitted"]) > 1 or any(len(a) > 0 for a in case["admitted"])
    return fails, nontrivial


def _replay_chunk(cases):
    """None = not replayed: after five divergent cases in a chunk the rest is left out (the check fails anyway)."""
    out, diverged = [], 0
    for c in cases:
        if diverged >= 5:
            out.append(None)
            continue
        r = replay_greedy(c)
        diverged += any(cl == "does_not_terminate" for cl, _ in r[0])
        out.append(r)
    return out


# ------------------------------------------------------------------------------ stage C
def all_cuts_table(rng, n, k, vmax, distinct=False):
    tab = {}
    cuts = list(itertools.combinations(range(n + 1), k))
    vals = rng.permutation(len(cuts)) if distinct else rng.integers(0, vmax + 1, size=len(cuts))
    for c, v in zip(cuts, vals):
        tab[c] = int(v)
    return tab


def config_grid(rng, n_hi=22):
    m = int(rng.choice([1, 1, 2, 3, 5]))
    n = int(rng.integers(2 * m, max(2 * m, n_hi) + 1))
    L = int(rng.choice([2 * m, 2 * m + 1, 2 * m + 2, n - 1 if n - 1 >= 2 * m else 2 * m, n, n + 1, 200]))
    g = float(rng.choice([1.01, 1.1, 1.5, 2.0, 1.3]))
    return n, m, L, g


def inner_pairs(s, e, m):
    return [(a, b) for a in range(s + 1, e) for b in range(a + m, e) if (a - s) + (e - b) >= m]


def record(args):
    """mode, seed, count -> traces (R1 table scores and R3 built-in scores)."""
    import warnings

    warnings.filterwarnings("ignore")
    from skchange.anomaly_detectors import CircularBinarySegmentation
    from skchange.anomaly_scores import LocalAnomalyScore
    from skchange.change_detectors import SeededBinarySegmentation
    from skchange.change_scores import CUSUM, ChangeScore
    from skchange.costs import GaussianVarCost, L2Cost

    from .doubles import TableChangeScore, TableLocalScore, split_columns
    from .zoo import lattice_data

    mode, seed, count = args
    diverged = 0
    rng = np.random.default_rng(seed)
    out = []
    for i in range(count):
        n, m, L, g = config_grid(rng, 18 if mode == "overlaps" else 24)
        rid = f"{'s' if mode == 'contains' else 'c'}-{seed}-{i}"
        r1 = bool(rng.integers(0, 3) > 0)
        p = int(rng.integers(1, 3))
        Det = SeededBinarySegmentation if mode == "contains" else CircularBinarySegmentation
        kw = "change_score" if mode == "contains" else "anomaly_score"
        default = (2 * p * math.sqrt(math.log(n))) if mode == "contains" else (2 * p * math.log(n * L))
        try:
            if r1:
                vmax = int(rng.integers(1, 6))
                distinct = n > 12 or bool(rng.integers(0, 2) == 0)  # tie-heavy tables only on short series
                tab = all_cuts_table(rng, n, 3 if mode == "contains" else 4, vmax, distinct=distinct)
                tab2 = {k: split_columns(v, p, rng) for k, v in tab.items()}
                io = bool(rng.integers(0, 2))   # the user-defined score may return an int64 array
                mk = (lambda: TableChangeScore(tab2, p=p, int_out=io)) if mode == "contains" else (lambda: TableLocalScore(tab2, p=p, int_out=io))
                # half the thresholds are integers: they tie with table scores ("exceeds" is strict)
                h = float(rng.integers(0, max(list(tab.values()) + [0]) + 1)) + (0.5 if rng.integers(0, 2) else 0.0)
                X = np.zeros((n, p))
                value = lambda cut: 2 * tab[cut]
                thr_of = lambda t: int(math.floor(2 * t))   # scores are multiples of 1/2: s > t  <=>  2s > floor(2t)
                tol = 0
                scales = [h / default, (h + 1.0) / default]
                name = "table"
            else:
                which = int(rng.integers(0, 3))
                if mode == "contains":
                    mk, ms, name = [(lambda: CUSUM(), 1, "CUSUM"), (lambda: ChangeScore(L2Cost()), 1, "ChangeScore(L2Cost)"),
                                    (lambda: ChangeScore(GaussianVarCost()), 2, "ChangeScore(GaussianVarCost)")][which]
                else:
                    mk, ms, name = [(lambda: L2Cost(), 1, "L2Cost"), (lambda: LocalAnomalyScore(L2Cost()), 1, "LocalAnomalyScore(L2Cost)"),
                                    (lambda: GaussianVarCost(), 2, "GaussianVarCost")][which]
                if m < ms:
                    continue
                X = lattice_data(rng, n, p, kind=int(rng.choice([1, 2, 3, 4, 6])))
                if ms == 2:
                    X = X + rng.integers(-2, 3, size=(n, p)) / 8.0
                s0 = float(rng.choice([0.1, 0.5, 1.0]))
                reused = bool(rng.integers(0, 2))
                # a third of the runs tune the threshold: the quantile of the training scores often IS one of them
                scales = [None, None] if rng.integers(0, 3) == 0 else [s0, 2 * s0]
                level = float(rng.choice([0.05, 0.2, 0.25, 0.5]))
            dets = []
            # integer-valued data go to the detector as int64 half of the time; the per-split reference values are
            # always computed from the float copy
            Xin = X.astype(np.int64) if (not r1) and np.all(X == np.round(X)) and rng.integers(0, 2) else X
            for sc_ in scales:
              with time_limit(20):
                if sc_ is None and dets:   # the higher threshold of a tuned pair
                    sc_ = 1.5 * float(dets[0][0].threshold_) / default + 0.01
                det = Det(**{kw: mk()}, threshold_scale=sc_, min_segment_length=m, max_interval_length=L,
                          growth_factor=g, **({} if r1 else {"level": level}))
                if not r1 and reused:
                    # the same detector object has already been used on OTHER data (another length, other values):
                    # what it reports for X must not depend on that
                    X0 = lattice_data(np.random.default_rng(seed * 1000 + i), n + 3, p, kind=2) + 0.125
                    try:
                        det.fit(X0).predict(X0)
                    except RuntimeError:
                        pass
                det.fit(Xin)
                if not r1 and reused:
                    touch_same_index(det, Xin)
                y = det.predict(Xin)
                dets.append((det, y))
            det, y = dets[0]
            tabdf = det.scores
            if mode == "contains":
                rows = [(int(r.start), int(r.end), int(r.argmax_cpt), float(r.score)) for r in tabdf.itertuples()]
                outl = [int(c) for c in y["ilocs"].to_numpy()]
                out_hi = [int(c) for c in dets[1][1]["ilocs"].to_numpy()]
            else:
                rows = [(int(r.interval_start), int(r.interval_end),
                         [int(r.argmax_anomaly_start), int(r.argmax_anomaly_end)], float(r.score)) for r in tabdf.itertuples()]
                iv = y["ilocs"].array
                outl = [[int(a), int(b)] for a, b in zip(iv.left, iv.right)]
                iv2 = dets[1][1]["ilocs"].array
                out_hi = [[int(a), int(b)] for a, b in zip(iv2.left, iv2.right)]
            if not r1:
                ref = (mk() if mode == "contains" else __import__("skchange.anomaly_scores", fromlist=["x"]).to_local_anomaly_score(mk())).fit(X)
                cache = {}

                def fval(cut):
                    if cut not in cache:
                        cache[cut] = float(np.sum(ref.evaluate(np.array([cut]))))
                    return cache[cut]
            splits = []
            for (s, e, pk, scv) in rows:
                if not (0 <= s < e <= n):
                    splits.append([])
                    continue
                if mode == "contains":
                    cand = [((s, k, e), k) for k in range(s + m, e - m + 1)]
                else:
                    cand = [((s, a, b, e), [a, b]) for a, b in inner_pairs(s, e, m)]
                splits.append([[pick, (value(cut) if r1 else fval(cut))] for cut, pick in cand])
            if r1:
                table = [[s, e, pk, int(round(2 * scv))] for (s, e, pk, scv) in rows]
                thr = thr_of(det.threshold_)
                if abs(det.threshold_ - h) > 1e-9:
                    out.append({"id": rid, "error": f"threshold_ {det.threshold_} != {h}", "n": n, "m": m, "L": L, "g": g,
                                "clause": "threshold_is_not_scale_times_default", "mode": mode, "score": "table"})
                    continue
                unit = 0.5
            else:
                allv = [r[3] for r in rows] + [v for sp in splits for _, v in sp] + [det.threshold_]
                if not all(math.isfinite(v) for v in allv):
                    continue
                mag = max(1.0, max(abs(v) for v in allv))
                unit = mag / 2 ** 28
                q = lambda v: int(round(v / unit))
                table = [[s, e, pk, q(scv)] for (s, e, pk, scv) in rows]
                splits = [[[pick, q(v)] for pick, v in sp] for sp in splits]
                thr = q(det.threshold_)
                tol = 64
            # the greedy selection is decided by the detector on ITS OWN reported scores and threshold_ (public, exact):
            # dense ranks preserve every comparison, including equality, without tolerance
            order = {v: k for k, v in enumerate(sorted({float(r[3]) for r in rows} | {float(det.threshold_)}))}
            out.append({"id": rid, "rec": "run", "mode": mode, "score": name, "n": n, "p": p, "m": m, "L": L, "g": g,
                        "rk": [order[float(r[3])] for r in rows], "rkthr": order[float(det.threshold_)],
                        "tie": bool(any(float(r[3]) == float(det.threshold_) for r in rows)),
                        "thr": thr, "tol": tol, "unit": unit, "table": table, "splits": splits, "out": outl,
                        "X": None if r1 else X.tolist()})
            out.append({"id": rid + "p", "rec": "pair", "low": outl, "high": out_hi, "n": n, "m": m, "L": L, "g": g,
                        "mode": mode, "score": name})
            if mode == "contains":  # growth: the shift structure of the interval construction itself
                from skchange.change_detectors.seeded_binseg import make_seeded_intervals

                ss, ee = make_seeded_intervals(n, 2 * m, L, g)
                out.append({"id": rid + "i", "rec": "intervals", "n": n, "m": m, "L": L, "g": g, "minlen": 2 * m, "mode": mode,
                            "score": "make_seeded_intervals", "starts": [int(x) for x in ss], "ends": [int(x) for x in ee]})
        except RuntimeError:
            continue
        except NonTermination as e:
            out.append({"id": rid, "error": "does not terminate: " + str(e), "clause": "does_not_terminate", "n": n, "m": m, "L": L, "g": g,
                        "score": "table" if r1 else "builtin", "mode": mode})
            diverged += 1
            if diverged >= 3:
                break   # the check fails anyway; do not spend 20 s on every further case
        except Exception as e:
            out.append({"id": rid, "error": repr(e)[:300], "n": n, "m": m, "L": L, "g": g, "score": "table" if r1 else "builtin",
                        "mode": mode})
    return out


def run_check(chk, mode, tier, wd, detector):
    chk.rule = ("stage A/B: every set of up to K admissible candidate intervals x per-candidate (score, pick) x "
                "thresholds in steps of 1/2 (ties with scores included) within the constants, replayed through the greedy selection function; stage C: "
                f"{detector} with random integer score tables over ALL cuts (ties frequent) and built-in scores on "
                "lattice data over the grid of (n, min_segment_length, max_interval_length, growth_factor) incl. the "
                "boundary max_interval_length = 2*min_segment_length, plus pairs of thresholds and tuned thresholds (which often coincide with a training score).  Non-trivial = at "
                "least one detection or several admitted tie resolutions; distinct by hash of the case.")
    chk.assumptions = ["TLC/SANY and the Json module", "R3: deviations of score VALUES below tol*unit are rounding; the selection itself "
                       "is judged exactly, on dense ranks of the detector's own reported scores and threshold_"]
    cases = []
    if mode == "contains":  # growth: shift structure of make_seeded_intervals (not a listed property)
        stages.model_check(chk, "SeededIntervals", dict(NMax=6 if tier == "quick" else 8, StepMode="any"),
                           ["AllAdmissible", "BlockReachesEnd", "BlockOverlaps", "NonEmpty"], wd=wd, label="A:interval-construction")
    for label, cs in stage_a_configs(mode, tier):
        stages.model_check(chk, "SeededBinseg", cs, INVS, wd=wd, label="A:" + label, coverage=(tier == "thorough"),
                           expect_actions=("Loop",))
        nsl = 8
        sl = None if tier == "thorough" else [chk.seed % nsl, (chk.seed + 1) % nsl]
        cases += stages.emit_cases(chk, "SeededBinseg", cs, wd=wd, label="B:" + label, nslices=nsl, slices=sl)
    uniq = {}
    for c in cases:
        uniq.setdefault(sha(c), c)
    items = list(uniq.items())
    with ProcessPoolExecutor(max_workers=stages.NCPU) as ex:
        chunks = [items[i::64] for i in range(64) if items[i::64]]
        for chunk, ress in zip(chunks, ex.map(_replay_chunk, [[c for _, c in ch] for ch in chunks])):
            for (key, case), res in zip(chunk, ress):
                if res is None:
                    chk.extra["not_replayed_after_divergence"] = chk.extra.get("not_replayed_after_divergence", 0) + 1
                    continue
                fails, nontrivial = res
                chk.case({"stage": "B", **case}, nontrivial=nontrivial, key=key)
                chk.traces += 1
                for clause, obs in fails:
                    chk.violation({"stage": "B", "case": case, "observed": obs}, clause,
                                  {"detector": detector, "clause": clause, "input_sha": key})
    count = 40 if tier == "quick" else 500
    with ProcessPoolExecutor(max_workers=stages.NCPU) as ex:
        traces = [t for part in ex.map(record, [(mode, chk.seed + k, count) for k in range(16)]) for t in part]
    for t in [t for t in traces if "error" in t]:
        chk.case(t)
        chk.violation({"stage": "C", "trace": t}, t.get("clause", "raises"),
                      {"detector": detector, "clause": t.get("clause", "raises"), "n": t["n"], "m": t["m"], "L": t["L"], "g": t["g"]})
    traces = [t for t in traces if "error" not in t]
    slim = [{k: v for k, v in t.items() if k not in ("X", "score", "unit", "p", "g")} for t in traces]
    verdicts = stages.validate_traces(chk, "Trace_Binseg", slim, wd=wd, label="C:binseg", batch=150)
    for t in traces:
        v = verdicts.get(t["id"])
        chk.case({k: t[k] for k in t if k not in ("X", "splits")}, nontrivial=bool(t.get("out") or t.get("low") or t.get("starts")), key=t["id"])
        if v and v.startswith("skip:"):
            chk.extra["skipped_traces"] = chk.extra.get("skipped_traces", 0) + 1
        elif v and v != "ok" and t.get("rec") == "intervals" and v.split(":", 1)[1] not in ("no_candidate_interval", "interval_not_admissible"):
            # the shift structure is specification growth, not part of the listed property: informational
            chk.spec_drift(f"make_seeded_intervals no longer has the block/shift structure of SeededIntervals.tla ({v.split(':', 1)[1]})")
        elif v and v != "ok":
            clause = v.split(":", 1)[1]
            chk.violation({"stage": "C", "trace": t, "verdict": v}, clause,
                          {"detector": detector, "clause": clause, "score": t["score"], "n": t["n"], "m": t["m"], "L": t["L"]})
