"""Unbounded one-step arithmetic lemmas (spec/ArithLemmas.tla) checked with Apalache.

No verdict depends on them; the thorough tier of C13 runs them and reports the outcome in its evidence.
usage: /venv/bin/python -m vf.lemmas
"""
from __future__ import annotations

import os
import shutil
import subprocess
import sys
from concurrent.futures import ThreadPoolExecutor

from .tlc import SPEC_DIR, Workdir

# lemma -> expected outcome
LEMMAS = {"CutsNoSilentWrap": "NoError", "LocalNoSilentWrap": "NoError", "WindowInside": "NoError", "PickSpacing": "NoError",
          "InnerStrictlyInside": "NoError", "PeltLatestStart": "NoError",
          "WindowSearchCount": "NoError", "SeededIntervalExists": "NoError", "CovParamSizeGrows": "NoError",
          "CutsPinnedWouldWrap": "Error"}   # negative lemma: the pinned check without bounds must be refuted


def run(wd) -> dict:
    def one(name):
        d = os.path.join(wd.path, "apa-" + name)
        os.makedirs(d, exist_ok=True)
        shutil.copy(os.path.join(SPEC_DIR, "ArithLemmas.tla"), d)
        try:
            p = subprocess.run(["apalache-mc", "check", "--length=0", "--init=Init", f"--inv={name}", f"--out-dir={d}/out", "ArithLemmas.tla"],
                               cwd=d, capture_output=True, text=True, timeout=300)
        except Exception as e:
            return name, f"not_run:{type(e).__name__}"
        out = p.stdout + p.stderr
        if "The outcome is: NoError" in out:
            return name, "NoError"
        if "The outcome is: Error" in out:
            return name, "Error"
        return name, "not_run"

    with ThreadPoolExecutor(max_workers=4) as ex:
        return dict(ex.map(one, LEMMAS))


def main():
    with Workdir("lemmas") as wd:
        res = run(wd)
    bad = 0
    for k, v in res.items():
        ok = v == LEMMAS[k]
        bad += 0 if ok or v.startswith("not_run") else 1
        print(f"{k}: {v} (expected {LEMMAS[k]}) {'ok' if ok else ''}")
    return 2 if bad else 0


if __name__ == "__main__":
    sys.exit(main())
