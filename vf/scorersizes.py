"""ScorerSizes.tla bound to the scorer classes (growth beyond the listed properties; a stage of the C13 check).

TLC enumerates every history of Fit(p) / ReadMinSize / Probe / ReadParamSize(q) of length MaxLen on one scorer
object of each of the 14 kinds, with the expected answer per step.  The harness executes each history on a real
object:
  * `probe` -- the smallest interval length `evaluate` accepts (no ValueError) on the currently fitted data -- must be
    the specification's minimum size for the LAST fit; a difference is a C13 violation (the required minimum spacing
    is not the one the scorer describes): clause minimum_spacing_not_that_of_the_last_fit;
  * the attribute reads `min_size` and `get_param_size(q)` are compared with the specification; a difference is an
    informational SPEC-DRIFT line (the attributes themselves are not part of C13's statement).
"""

from __future__ import annotations

from concurrent.futures import ProcessPoolExecutor

import numpy as np

from . import stages

NEG = [("scorer-sizes-" + m, "ScorerSizes", dict(MaxP=3, MaxLen=4, Mode=m, Emit=False), ["SizesFollowLastFit"], "Init", None)
       for m in ("stale_min_size", "adapter_own_size", "cov_counts_mean_only")]
N = 14


def build(sc):
    from skchange.anomaly_scores import L2Saving, LocalAnomalyScore, Saving
    from skchange.change_scores import CUSUM, ChangeScore
    from skchange.costs import GaussianCovCost, GaussianVarCost, L2Cost

    inner, outer = sc["inner"], sc["outer"]
    if inner == "CUSUM":
        return CUSUM(), 3
    if inner == "L2Saving":
        return L2Saving(), 2
    cls = {"L2Cost": L2Cost, "GaussianVarCost": GaussianVarCost, "GaussianCovCost": GaussianCovCost}[inner]
    fixed = {"L2Cost": 0.0, "GaussianVarCost": (0.0, 1.0), "GaussianCovCost": (0.0, 1.0)}[inner]
    if outer == "plain":
        return cls(), 2
    if outer == "ChangeScore":
        return ChangeScore(cls()), 3
    if outer == "Saving":
        return Saving(cls(param=fixed)), 2
    return LocalAnomalyScore(cls()), 4


def probe(obj, kind):
    """Smallest interval length accepted by evaluate on the fitted data (0: none up to 6)."""
    for L in range(1, 7):
        cut = {2: [3, 3 + L], 3: [1, 1 + L, 1 + 2 * L], 4: [0, 4, 4 + L, N]}[kind]
        try:
            obj.evaluate(np.array([cut]))
            return L
        except ValueError:
            continue
        except RuntimeError:      # documented: singular sample covariance -- the cut itself was admitted
            return L
    return 0


def run_history(case):
    import warnings

    warnings.filterwarnings("ignore")
    obj, kind = build(case["sc"])
    name = f"{case['sc']['outer']}:{case['sc']['inner']}"
    drift, fails = [], []
    fitted = False
    for k, st in enumerate(case["hist"]):
        op, arg, exp = st["op"], st["arg"], st["exp"]
        where = {"scorer": name, "step": k, "op": op, "hist": [[h["op"], h["arg"]] for h in case["hist"]]}
        try:
            if op == "fit":
                rng = np.random.default_rng(17 * k + arg)
                X = rng.normal(size=(N, arg)) + np.arange(N)[:, None] * (0.3 * (np.arange(arg) + 1)) + rng.integers(0, 3, size=(N, arg))
                obj.fit(X)
                fitted = True
                continue
            if op == "min_size":
                got = obj.min_size
                got = 0 if got is None else int(got)
                if got != exp:
                    drift.append(f"{name}.min_size is {got} where ScorerSizes.tla gives {exp} after {where['hist'][:k]}")
            elif op == "param_size":
                got = int(obj.get_param_size(arg))
                if got != exp:
                    drift.append(f"{name}.get_param_size({arg}) is {got} where ScorerSizes.tla gives {exp}")
            elif op == "probe":
                got = probe(obj, kind)
                if got != exp:
                    fails.append(("minimum_spacing_not_that_of_the_last_fit", {**where, "smallest_accepted_length": got, "min_size_of_last_fit": exp}))
        except Exception as e:
            drift.append(f"{name}: {op} raises {type(e).__name__} after {where['hist'][:k]}")
            break
    return drift, fails


def _chunk(cases):
    return [run_history(c) for c in cases]


def stage(chk, tier, wd):
    maxlen = 3 if tier == "quick" else 4
    cs = dict(MaxP=3, MaxLen=4, Mode="code", Emit=False)
    stages.model_check(chk, "ScorerSizes", cs, ["SizesFollowLastFit", "MinSizeAtLeastOne", "ParamSizeGrows", "ParamSizeAtLeastColumns"],
                       wd=wd, label="A:scorer-sizes")
    cases = stages.emit_cases(chk, "ScorerSizes", dict(MaxP=3, MaxLen=maxlen, Mode="code"), wd=wd, label="B:scorer-sizes",
                              invariants=("EmitHist",))
    if len(cases) < 1000:
        chk.machinery(f"ScorerSizes emitted only {len(cases)} histories")
    ndrift = 0
    with ProcessPoolExecutor(max_workers=stages.NCPU) as ex:
        chunks = [cases[i::32] for i in range(32) if cases[i::32]]
        for chunk, ress in zip(chunks, ex.map(_chunk, chunks)):
            for case, (drift, fails) in zip(chunk, ress):
                ops = [h["op"] for h in case["hist"]]
                chk.case({"stage": "scorer-sizes", "scorer": case["sc"], "hist": [[h["op"], h["arg"]] for h in case["hist"]]},
                         nontrivial=ops.count("fit") >= 2 and ops[-1] in ("probe", "min_size"),
                         key="ss-" + case["sc"]["outer"] + case["sc"]["inner"] + "-".join(f"{h['op']}{h['arg']}" for h in case["hist"]))
                chk.traces += 1
                for d in drift[:1]:
                    ndrift += 1
                    if ndrift <= 3:
                        chk.spec_drift(d)
                for clause, obs in fails:
                    chk.violation({"stage": "scorer-sizes", "sizes_case": case, "observed": obs}, clause,
                                  {"clause": clause, "scorer": obs["scorer"]})
    chk.extra["scorer_size_histories"] = len(cases)
    chk.extra["scorer_size_histories_with_drift"] = ndrift
