"""Developer tool: run every claimed check (quick by default) and print one line each.
usage: /venv/bin/python -m vf.runall [quick|thorough] [ID ...]"""
import json
import subprocess
import sys
import time


def main():
    tier = sys.argv[1] if len(sys.argv) > 1 and sys.argv[1] in ("quick", "thorough") else "quick"
    only = [a for a in sys.argv[1:] if a not in ("quick", "thorough")]
    import os

    root = os.path.dirname(os.path.dirname(os.path.abspath(__file__)))   # /verif, or a snapshot of it (vp run)
    man = json.load(open(os.path.join(root, "MANIFEST.json")))
    bad = 0
    for c in man["checks"]:
        pid = c["property_id"]
        if only and pid not in only:
            continue
        t0 = time.time()
        cmd = c["quick_cmd"] if tier == "quick" else c["thorough_cmd"]
        import signal

        proc = subprocess.Popen(cmd, shell=True, cwd=root, stdout=subprocess.PIPE, stderr=subprocess.PIPE, text=True,
                                start_new_session=True)
        try:
            out, err = proc.communicate(timeout=int(os.environ.get("VF_CHECK_TIMEOUT", "3000")))
        except subprocess.TimeoutExpired:
            os.killpg(proc.pid, signal.SIGKILL)
            out, err = proc.communicate()
            print(f"{pid} TIMEOUT after {time.time() - t0:.0f}s", flush=True)
            bad += 1
            continue

        class P:
            pass

        p = P()
        p.returncode, p.stdout, p.stderr = proc.returncode, out, err
        lines = [l for l in p.stdout.splitlines() if l.startswith(("OK", "VIOLATION", "KNOWN", "SPEC-DRIFT"))]
        print(f"{pid} exit={p.returncode} {time.time() - t0:.0f}s {' | '.join(lines)[:300]}", flush=True)
        if p.returncode != 0:
            bad += 1
            print(p.stderr[-800:])
    return 1 if bad else 0


if __name__ == "__main__":
    sys.exit(main())
