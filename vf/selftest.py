"""Vacuity guards: known-bad variants of every implementation-layer spec MUST be refuted by TLC.

usage: /venv/bin/python -m vf.selftest [ID ...]     (all properties when no id is given)
Each entry switches ONE mode constant of a spec to the behaviour of the pinned tree (or of a typical
mutant) and requires TLC to report a violation of one of the named invariants.  A negative
configuration that passes means the invariant cannot fail there (vacuous model / too small constants)
and is reported as a machinery failure.  The thorough tier of every check runs its own entries.
"""

from __future__ import annotations

import sys
from concurrent.futures import ThreadPoolExecutor

from . import stages
from .binseg import consts as bconsts
from .checks.c01 import consts as cost_consts
from .checks.c02 import base_consts as pelt_consts
from .checks.c03 import consts as capa_consts
from .checks.c08 import consts as mw_consts
from .checks.c17 import consts as an_consts
from .tlc import Workdir

# property -> list of (label, module, constants, invariants, init, expected violated invariants, properties)
NEG = {
    "C02": [
        ("pelt-immediate-pruning", "Pelt", pelt_consts(N=5, M=2, V=2, MaxBeta=3, PruneMode="immediate"), ["PruneSound", "PrefixOptimal"], "InitAll", None),
        ("pelt-pruning-without-penalty", "Pelt", pelt_consts(N=4, M=1, V=2, MaxBeta=3, PruneMode="nopenalty"), ["PruneSound", "PrefixOptimal"], "InitAll", None),
    ],
    "C03": [
        ("capa-start-from-offset", "Capa", capa_consts(N=5, Mx=5, V=1, CAs={0, 1}, PAs={1, 2}, StartMode="offset"), ["ReEvaluate", "PrefixOptimal"], "Init", None),
        ("capa-alpha-per-component", "Capa", capa_consts(N=3, P=2, V=1, Mx=3, CAs={1}, PAs={1}, BetaSel="equal", PBs={0}, AlphaMode="percomp"),
         ["BranchAgrees", "PrefixOptimal"], "Init", None),
        ("capa-no-early-points", "Capa", capa_consts(N=3, V=2, Mx=3, EarlyPts=False), ["PrefixOptimal"], "Init", None),
        ("capa-empty-point-interval", "Capa", capa_consts(N=3, V=2, Mx=3, PointRow="empty"), ["WellFormed", "ReEvaluate"], "Init", None),
        ("capa-immediate-pruning", "Capa", capa_consts(N=4, V=2, Mx=3, PruneMode="immediate"), ["PruneSound", "PrefixOptimal"], "Init", None),
    ],
    "C05": [
        ("formats-lookup-by-label", "Formats", dict(NMax=4, PMax=1, Lookup="label", Split="gap_or_label", Emit=False), ["LabelAtPosition", "RoundTrip"], "Init", None),
        ("formats-split-on-gaps-only", "Formats", dict(NMax=4, PMax=1, Lookup="position", Split="gap", Emit=False), ["RoundTrip"], "Init", None),
    ],
    "C01": [
        ("costs-inplace-centering", "Costs", cost_consts(N=3, EvalMode="inplace"), ["BatchIndependent", "FitStateUnchanged"], "Init", None),
        ("costs-no-zero-row", "Costs", cost_consts(N=3, CumMode="no_zero_row"), ["PrefixDefinition", "BatchIndependent"], "Init", None),
        ("costs-ends-minus-one", "Costs", cost_consts(N=3, CumMode="ends_minus_one"), ["PrefixDefinition", "BatchIndependent"], "Init", None),
    ],
    "C07": [("seeded-strict-removal-test", "SeededBinseg", bconsts("contains", N=5, L=5, K=2, RemoveTest="strict"),
             ["GreedyCharacterisation", "Terminates", "NothingLeft"], "Init", None),
            ("seeded-weak-exceedance", "SeededBinseg", bconsts("contains", N=5, L=5, K=2, Exceed="weak"),
             ["GreedyCharacterisation", "Terminates", "Supported"], "Init", None)],
    "C09": [("circular-touching-counts-as-overlap", "SeededBinseg", bconsts("overlaps", RemoveTest="touch"), ["GreedyCharacterisation"], "Init", None),
            ("circular-weak-exceedance", "SeededBinseg", bconsts("overlaps", Exceed="weak"), ["GreedyCharacterisation", "Terminates", "Supported"], "Init", None)],
    "C08": [("moving-window-short-left-window", "MovingWindow", mw_consts(N=6, B=1, LeftWindow="short"), ["ScoreIsDefinition", "Reversal"], "Init", None),
            ("moving-window-weak-exceedance", "MovingWindow", mw_consts(N=6, B=1, Exceed="weak"), ["WhereIsMaximalRuns", "PeakOfRun"], "Init", None)],
    "C10": [(f"lifecycle-{leak}", "Lifecycle", dict(MaxLen=3, Sharing="shared", Tunes="none", Leak=leak, Emit=False, NSlices=1, Slice=0, EmitLen=3),
             ["NoLeak", "UpdateIsRefit"], "Init", None) for leak in ("cached_scores", "refit_if_unfit", "update_replaces", "keep_on_set", "cached_by_index")] +
           [(f"update-merge-{m}", "UpdateMerge", dict(L=4, MaxBatches=3, MergeMode=m, Emit=False, NSlices=1, Slice=0),
             ["UpdateIsFitOnCombined", "LabelsOnceInOrder", "NothingLost", "NewRowsWin"], "Init", None) for m in ("concat", "fastpath", "old_wins")],
    "C11": [(f"representations-{c}", "Representations", dict(N=4, Conv=c, Emit=False), ["ValuesPreserved", "IndexCarried"], "Init", None)
            for c in ("label_lookup", "astype_int")],
    "C13": [("cuts-no-bounds-check", "Cuts", dict(NMax=4, Margin=2, CheckMode="nobounds", DiffMode="exact", Emit=False),
             ["NoSilentWrap", "OnlyValueError", "RejectIffInvalid"], "Init", None),
            ("cuts-bounds-of-first-last-row", "Cuts", dict(NMax=4, Margin=2, CheckMode="firstlast", DiffMode="exact", Emit=False),
             ["NoSilentWrap", "OnlyValueError", "RejectIffInvalid"], "Init", None),
            ("cuts-unsigned-diff-wraps", "Cuts", dict(NMax=4, Margin=2, CheckMode="bounds", DiffMode="wrapping", Emit=False),
             ["RejectIffInvalid"], "Init", None)],
    "C14": [(f"config-{b}", "Config", dict(Bound=b, Emit=False, NSlices=1, Slice=0), ["Total"], "Init", None)
            for b in ("bandwidth_min_2", "growth_closed_at_1", "nan_unchecked")],
    "C17": [("anomaliser-inclusive-comparison", "Anomaliser", an_consts(N=3, Cmp="inclusive"), ["FlagsExactly"], "Init", None),
            ("anomaliser-merges-adjacent", "Anomaliser", an_consts(N=3, Adjacent="merge"), ["FlagsExactly"], "Init", None),
            ("anomaliser-fits-wrapped", "Anomaliser", an_consts(N=3, FitTarget="wrapped"), ["WrappedUntouched"], "Init", None),
            ("anomaliser-keeps-first-clone", "Anomaliser", an_consts(N=3, LoHi=1, Rounds=2, CloneWhen="first_fit"), ["FlagsExactly"], "Init", None)],
    "C18": [("generators-upper-bound-only", "Generators", dict(N=3, P=1, MaxK=1, Check="upper_only", Emit=False, NSlices=1, Slice=0, Profile="distinct"),
             ["RaisesIffInconsistent", "NoSilentWrap"], "Init", None)],
}
from .costparams import NEG as _cp_neg  # noqa: E402

from .scorersizes import NEG as _ss_neg  # noqa: E402

NEG["C01"] = NEG["C01"] + _cp_neg
NEG["C13"] = NEG["C13"] + _ss_neg
# properties decided through another property's model
NEG["C06"] = NEG["C01"][1:3]
NEG["C16"] = [NEG["C03"][1]]
NEG["C04"] = [NEG["C03"][3]]
NEG["C12"] = [NEG["C08"][0]]
NEG["C15"] = []


def run_for(props, wd):
    """-> list of failure strings (empty when every negative configuration is refuted)."""
    jobs = []
    for p in props:
        for entry in NEG.get(p, []):
            jobs.append((p, entry))

    def one(job):
        p, (label, module, consts, invs, init, expected, *_rest) = job
        try:
            ok, res = stages.expect_violation(module, consts, invs, wd=wd, label=f"neg-{label}", init=init, expected=expected, timeout=1500)
            return None if ok else f"negative configuration {label} ({module}) was NOT refuted ({res.distinct} states)"
        except Exception as e:
            return f"negative configuration {label} ({module}) failed to run: {str(e)[-300:]}"

    with ThreadPoolExecutor(max_workers=4) as ex:
        return [r for r in ex.map(one, jobs) if r]


def main():
    props = [a.upper() for a in sys.argv[1:]] or sorted(NEG)
    with Workdir("selftest") as wd:
        fails = run_for(props, wd)
    n = sum(len(NEG.get(p, [])) for p in props)
    for f in fails:
        print("SELFTEST-FAILURE", f)
    print(f"selftest: {n - len(fails)}/{n} negative configurations refuted")
    return 2 if fails else 0


if __name__ == "__main__":
    sys.exit(main())
