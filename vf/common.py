"""Shared plumbing of the checks: seeds, evidence, replay files, known findings, verdict protocol."""

from __future__ import annotations

import contextlib
import hashlib
import json
import os
import signal
import sys
import time

ROOT = os.path.dirname(os.path.dirname(os.path.abspath(__file__)))
EVID_DIR = os.path.join(ROOT, "evidence")
REPLAY_DIR = os.path.join(ROOT, "replays")
KNOWN_FILE = os.path.join(ROOT, "KNOWN_FINDINGS.txt")


def seed() -> int:
    try:
        return int(os.environ.get("VERIF_SEED", "20260926"))
    except ValueError:
        return 20260926


def canon(obj) -> str:
    return json.dumps(obj, sort_keys=True, separators=(",", ":"), default=_default)


def _default(o):
    import numpy as np

    if isinstance(o, (np.integer,)):
        return int(o)
    if isinstance(o, (np.floating,)):
        return float(o)
    if isinstance(o, np.ndarray):
        return o.tolist()
    if isinstance(o, (set, frozenset)):
        return sorted(o)
    if isinstance(o, tuple):
        return list(o)
    return str(o)


def sha(obj) -> str:
    return hashlib.sha256(canon(obj).encode()).hexdigest()[:16]


class KnownFindings:
    """KNOWN_FINDINGS.txt: `open:` lines suppress exactly the matching signature, `fixed:` lines nothing."""

    def __init__(self, path: str = KNOWN_FILE):
        self.open = []  # (property, match dict, text)
        self.fixed = []
        if os.path.exists(path):
            for line in open(path):
                line = line.strip()
                if not line or line.startswith("#"):
                    continue
                if line.startswith("open:"):
                    rest = line[5:].strip()
                    prop = rest.split()[0].split("=", 1)[1]
                    i = rest.index("match=") + 6
                    dec = json.JSONDecoder()
                    match, k = dec.raw_decode(rest[i:])
                    self.open.append((prop, match, rest[i + k:].strip()))
                elif line.startswith("fixed:"):
                    self.fixed.append(line)

    def matches(self, prop: str, signature: dict):
        for p, match, text in self.open:
            if p == prop and all(signature.get(k) == v for k, v in match.items()):
                return text
        return None


class Check:
    """One run of one property's check: collects coverage, violations and writes the evidence file."""

    def __init__(self, prop: str, tier: str, level: str = "model_checking"):
        self.prop = prop
        self.tier = tier
        self.level = level
        self.t0 = time.time()
        self.seed = seed()
        self.states = 0
        self.transitions = 0
        self.traces = 0
        self.evaluations = 0
        self.nontrivial = set()
        self.samples = []
        self.violations = []  # (signature, record, clause)
        self.known_hits = []
        self.drift = []
        self.extra = {}
        self.assumptions = []
        self.rule = ""
        self.exhaustive = False
        self.stage_log = []
        self.known = KnownFindings()
        self.machinery_errors = []

    # ---- accounting -------------------------------------------------------------------------
    def add_tlc(self, res, label: str):
        self.states += res.distinct
        self.transitions += res.generated
        self.stage_log.append({"stage": label, "module": res.module, "distinct": res.distinct,
                               "generated": res.generated, "depth": res.depth,
                               "wall_s": round(res.wall_s, 2),
                               "coverage": {k: v[0] for k, v in res.coverage.items()} or None})

    def case(self, record, nontrivial: bool = False, key=None):
        """Count one evaluated case; keep the first few as samples."""
        self.evaluations += 1
        if nontrivial:
            self.nontrivial.add(key if key is not None else sha(record))
        if len(self.samples) < 3:
            self.samples.append(_shrink(record))

    def sample(self, record):
        if len(self.samples) < 6:
            self.samples.append(_shrink(record))

    def violation(self, record: dict, clause: str, signature: dict | None = None):
        sig = dict(signature or {})
        sig.setdefault("clause", clause)
        hit = self.known.matches(self.prop, sig)
        if hit is not None:
            if sig not in [k[0] for k in self.known_hits]:
                self.known_hits.append((sig, hit))
            return
        self.violations.append((sig, record, clause))

    def spec_drift(self, what: str):
        if what not in self.drift:
            self.drift.append(what)

    def machinery(self, what: str):
        self.machinery_errors.append(what)

    # ---- finishing --------------------------------------------------------------------------
    def finish(self) -> int:
        wall = time.time() - self.t0
        for sig, text in self.known_hits:
            print(f"KNOWN-FINDING: property={self.prop} {text} {canon(sig)}")
        for d in self.drift:
            print(f"SPEC-DRIFT property={self.prop} {d}")
        replay_path = None
        if self.violations:
            self.violations.sort(key=lambda v: len(canon(v[1])))
            sig, record, clause = self.violations[0]
            os.makedirs(os.path.join(REPLAY_DIR, self.prop), exist_ok=True)
            body = {"property": self.prop, "clause": clause, "signature": sig, "case": record}
            replay_path = os.path.join(REPLAY_DIR, self.prop, sha(body) + ".json")
            with open(replay_path, "w") as f:
                f.write(json.dumps(body, indent=1, default=_default))
        cov = {
            "states": max(self.states, 0),
            "transitions": max(self.transitions, 0),
            "traces_validated_against_impl": self.traces,
            "samples": self.samples or [{"note": "no case recorded"}],
            "evaluations": self.evaluations,
            "distinct_nontrivial": len(self.nontrivial),
            "rule": self.rule,
            "exhaustive": self.exhaustive,
            "stages": self.stage_log,
            "impl_layer_conformant": not self.drift,
            "spec_drift": self.drift,
            "known_findings_hit": [canon(s) for s, _ in self.known_hits],
        }
        cov.update(self.extra)
        ev = {
            "property_id": self.prop,
            "tier": self.tier,
            "seed": self.seed,
            "level": self.level,
            "coverage": cov,
            "assumptions": self.assumptions,
            "wall_s": round(wall, 2),
            "violations": len(self.violations),
        }
        if self.machinery_errors:
            ev["coverage"]["machinery_errors"] = self.machinery_errors[:5]
        os.makedirs(EVID_DIR, exist_ok=True)
        with open(os.path.join(EVID_DIR, f"{self.prop}.json"), "w") as f:
            f.write(json.dumps(ev, indent=1, default=_default))
        if self.machinery_errors:
            for m in self.machinery_errors[:5]:
                print(f"MACHINERY-FAILURE property={self.prop} {m}", file=sys.stderr)
            return 2
        if self.violations:
            sig, record, clause = self.violations[0]
            print(f"violations={len(self.violations)} first clause={clause} signature={canon(sig)}")
            print(f"VIOLATION property={self.prop} replay={replay_path}")
            return 1
        print(f"OK property={self.prop} tier={self.tier} states={self.states} "
              f"transitions={self.transitions} traces={self.traces} evaluations={self.evaluations} "
              f"nontrivial={len(self.nontrivial)} wall={wall:.1f}s")
        return 0


def _shrink(record, limit=1500):
    s = canon(record)
    if len(s) <= limit:
        return json.loads(s)
    return {"truncated": s[:limit]}


class NonTermination(Exception):
    """The implementation did not return within the (generous) limit: a loop that no longer terminates."""


@contextlib.contextmanager
def time_limit(seconds):
    """Raise NonTermination in the calling (main) thread of this process after `seconds` of wall time.

    Used around calls into the implementation on SMALL inputs that normally take milliseconds, so that a change
    which makes a loop diverge is reported as a violation (`does_not_terminate`) and not as a hung check."""
    def handler(signum, frame):
        raise NonTermination(f"no result within {seconds} s")

    old = signal.signal(signal.SIGALRM, handler)
    signal.setitimer(signal.ITIMER_REAL, seconds)
    try:
        yield
    finally:
        signal.setitimer(signal.ITIMER_REAL, 0)
        signal.signal(signal.SIGALRM, old)


def touch_same_index(det, X):
    """Call predict once on OTHER values carrying exactly X's shape and index (after fit, before the observed calls):
    whatever a detector remembers under the index / shape of an earlier input must not reach the result for X
    (seeded changes C08-d and C10-e: score caches keyed on X.index only)."""
    import numpy as np

    W = -np.roll(np.asarray(X, dtype=float), 1, axis=0) + 0.25 * (np.arange(len(X)) % 3)[:, None]
    if hasattr(X, "index"):
        import pandas as pd

        W = pd.DataFrame(W, index=X.index, columns=getattr(X, "columns", None))
    try:
        det.predict(W)
    except (RuntimeError, ValueError):
        pass   # e.g. a singular covariance slice in W: the detector is still fitted and must answer for X


def chunks(xs, n):
    for i in range(0, len(xs), n):
        yield xs[i:i + n]
