------------------------------ MODULE CostsDefs ------------------------------
(***************************************************************************)
(* PROPERTY LAYER for C01 / C06 / C12: the exact sufficient statistics of *)
(* the rows X[s:e] of an integer data matrix and the exact (rational)     *)
(* quantities the built-in costs and scores are defined from.  Nothing    *)
(* here uses prefix sums.  X is a function 0..n-1 -> sequence of P ints.  *)
(*                                                                         *)
(* A cost value is never computed as a float in TLA+: the specification   *)
(* supplies the exact integers (length, sums, cross moments, scatter      *)
(* determinant, numerators of quadratic forms) and the closed form of     *)
(* the property statement (n*ln(2*pi*v) + n etc.) is applied to them by   *)
(* the harness; squared-error quantities are compared as integers.        *)
(***************************************************************************)
EXTENDS Common

RECURSIVE S1(_, _, _, _)
\* sum of column j over the rows s..e-1
S1(X, s, e, j) == IF s >= e THEN 0 ELSE X[s][j] + S1(X, s + 1, e, j)
RECURSIVE S2(_, _, _, _, _)
\* sum of the products of columns j and k over the rows s..e-1
S2(X, s, e, j, k) == IF s >= e THEN 0 ELSE X[s][j] * X[s][k] + S2(X, s + 1, e, j, k)

\* the sufficient statistics of the slice X[s:e] for P columns
Stats(X, s, e, P) == [len |-> e - s,
                      s1  |-> [j \in 1..P |-> S1(X, s, e, j)],
                      s2  |-> [j \in 1..P |-> [k \in 1..P |-> S2(X, s, e, j, k)]]]
\* statistics are additive over disjoint row sets (pooled surroundings of a local anomaly score)
AddStats(a, b, P) == [len |-> a.len + b.len,
                      s1  |-> [j \in 1..P |-> a.s1[j] + b.s1[j]],
                      s2  |-> [j \in 1..P |-> [k \in 1..P |-> a.s2[j][k] + b.s2[j][k]]]]

(* ----------------------- squared error (L2) quantities ----------------- *)
\* len * RSS around the optimal mean  = len * S2 - S1^2          (an integer)
LenRSS(st, j)       == st.len * st.s2[j][j] - st.s1[j] * st.s1[j]
\* sum of squares around a fixed integer mean mu                  (an integer)
SSFixed(st, j, mu)  == st.s2[j][j] - 2 * mu * st.s1[j] + st.len * mu * mu

(* ------------------------- Gaussian quantities ------------------------- *)
\* variance = LenRSS / len^2 ; it is 0 exactly when LenRSS = 0 (then the code floors it at 1e-16)
VarNum(st, j) == LenRSS(st, j)
VarDen(st)    == st.len * st.len
\* scatter matrix entries  len * Sxy - Sx * Sy  ( = len^2 * covariance )
Scatter(st, j, k) == st.len * st.s2[j][k] - st.s1[j] * st.s1[k]
Det2(a11, a12, a21, a22) == a11 * a22 - a12 * a21
ScatterDet(st, P) ==
    IF P = 1 THEN Scatter(st, 1, 1)
    ELSE IF P = 2 THEN Det2(Scatter(st, 1, 1), Scatter(st, 1, 2), Scatter(st, 2, 1), Scatter(st, 2, 2))
    ELSE   Scatter(st, 1, 1) * Det2(Scatter(st, 2, 2), Scatter(st, 2, 3), Scatter(st, 3, 2), Scatter(st, 3, 3))
         - Scatter(st, 1, 2) * Det2(Scatter(st, 2, 1), Scatter(st, 2, 3), Scatter(st, 3, 1), Scatter(st, 3, 3))
         + Scatter(st, 1, 3) * Det2(Scatter(st, 2, 1), Scatter(st, 2, 2), Scatter(st, 3, 1), Scatter(st, 3, 2))
\* scatter matrices are positive semi-definite, so positive definite <=> determinant > 0
PosDef(st, P) == ScatterDet(st, P) > 0

(* --------------------------- C06 identities ---------------------------- *)
\* CUSUM^2 = (len_a * S_b - len_b * S_a)^2 / (len * len_a * len_b) equals the L2 change score
\* RSS(full) - RSS(a) - RSS(b); multiplied through by len * len_a * len_b it is an integer identity
CusumIsL2Score(a, b, j, P) ==
    LET f == AddStats(a, b, P)
        lhs == (a.len * b.s1[j] - b.len * a.s1[j]) * (a.len * b.s1[j] - b.len * a.s1[j])
        rhs == a.len * b.len * LenRSS(f, j) - f.len * b.len * LenRSS(a, j) - f.len * a.len * LenRSS(b, j)
    IN lhs = rhs
\* L2 saving S1^2/len = (cost at fixed mean 0) - (cost at the optimal mean)
L2SavingIsSaving0(st, j) == st.s1[j] * st.s1[j] = st.len * SSFixed(st, j, 0) - LenRSS(st, j)
\* the optimal-parameter cost never exceeds the cost at any fixed parameter
OptLeFixed(st, j, mu) == LenRSS(st, j) <= st.len * SSFixed(st, j, mu)
\* splitting never increases the optimal-parameter cost (=> change scores are non-negative, and
\* PELT's / CAPA's pruning is sound for the built-in costs): RSS(a) + RSS(b) <= RSS(a ++ b)
SplitNeverIncreasesL2(a, b, j, P) ==
    LET f == AddStats(a, b, P) IN
    f.len * b.len * LenRSS(a, j) + f.len * a.len * LenRSS(b, j) <= a.len * b.len * LenRSS(f, j)
\* Gaussian costs, discrete half: len*var >= len_a*var_a + len_b*var_b  (concavity of log then gives
\* the cost inequality -- the module's one analytic step)
VarianceDecomposition(a, b, j, P) ==
    LET f == AddStats(a, b, P) IN
    a.len * b.len * LenRSS(f, j) >= f.len * b.len * LenRSS(a, j) + f.len * a.len * LenRSS(b, j)

(* --------------------------- C12 symmetries ---------------------------- *)
ShiftRows(X, n, P, c)  == [i \in 0..(n - 1) |-> [j \in 1..P |-> X[i][j] + c[j]]]
ScaleRows(X, n, P, c)  == [i \in 0..(n - 1) |-> [j \in 1..P |-> c * X[i][j]]]
ReverseRows(X, n)      == [i \in 0..(n - 1) |-> X[n - 1 - i]]
PermuteCols(X, n, P, pi) == [i \in 0..(n - 1) |-> [j \in 1..P |-> X[i][pi[j]]]]
=============================================================================
