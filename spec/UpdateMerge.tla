----------------------------- MODULE UpdateMerge -----------------------------
(***************************************************************************)
(* Growth (C10, last sentence; also the `update` entry of C11):           *)
(*   "update with new pandas data is equivalent to fit on the old and the *)
(*    new data combined".                                                  *)
(*                                                                         *)
(* The training data of a detector is a TABLE: a sequence of rows          *)
(* <<label, value>> (label = the index label of the row, an integer here; *)
(* datetime / period / offset / stepped labels are order-preserving        *)
(* relabelings applied by the replay).  A history is fit(B1), update(B2), *)
(* ..., update(Bk) with ARBITRARY non-empty label sets B_i over 0..L-1:    *)
(* appended, overlapping, re-sent, interleaved, with gaps, earlier than    *)
(* everything stored.  The value carried by label l in batch i is          *)
(* 10 * i + l, so every row of every batch is distinguishable.             *)
(*                                                                         *)
(* PROPERTY LAYER  Combined(hist): every label that occurs in some batch,  *)
(*   once, with the value of the LAST batch that holds it, rows in label   *)
(*   order.                                                                 *)
(* IMPLEMENTATION LAYER  BaseDetector.update: self._X =                     *)
(*   new.combine_first(old), then _fit(self._X):                            *)
(*   MergeMode = "code"     union of the labels, new rows win, sorted;     *)
(*             = "concat"   old rows followed by new rows (mutant);        *)
(*             = "fastpath" for a batch of consecutive labels that starts  *)
(*                          inside or right after the stored ones: keep    *)
(*                          old[: first new LABEL] (a label used as a      *)
(*                          position -- the seeded change C11-c; right     *)
(*                          only when the stored labels start at 0), else  *)
(*                          as "code";                                      *)
(*             = "old_wins" union of the labels, OLD rows win (mutant:     *)
(*                          old.combine_first(new)).                        *)
(***************************************************************************)
EXTENDS UpdateMergeDefs, TLC, Json

CONSTANTS L, MaxBatches, MergeMode, Emit, NSlices, Slice

Labels == 0..(L - 1)
Batches == (SUBSET Labels) \ {{}}

VARIABLES hist,      \* the batches so far (label sets), hist[1] is the fit
          table      \* what _fit received last: sequence of <<label, value>>
vars == <<hist, table>>

(* property layer: UpdateMergeDefs.tla (ValueOf, RowsOf, LabelsOf, RowAt, LastHolder, Combined) *)

(* --------------------------- implementation layer ----------------------- *)
LabelMerge(old, new, newWins) ==
    LET U == LabelsOf(old) \cup LabelsOf(new)
    IN [k \in 1..Cardinality(U) |->
          LET l == SortedSeq(U)[k]
          IN IF l \in LabelsOf(new) /\ (newWins \/ l \notin LabelsOf(old)) THEN RowAt(new, l) ELSE RowAt(old, l)]
Consecutive(t) == \A k \in 1..(Len(t) - 1) : t[k + 1][1] = t[k][1] + 1
RunsOn(old, new) == /\ Consecutive(old) /\ Consecutive(new)
                    /\ new[1][1] >= old[1][1] /\ new[1][1] <= old[Len(old)][1] + 1
                    /\ new[Len(new)][1] >= old[Len(old)][1]
MergeCode(old, new) ==
    CASE MergeMode = "code"     -> LabelMerge(old, new, TRUE)
      [] MergeMode = "old_wins" -> LabelMerge(old, new, FALSE)
      [] MergeMode = "concat"   -> old \o new
      [] MergeMode = "fastpath" -> IF RunsOn(old, new)
                                   THEN SubSeq(old, 1, (IF new[1][1] < Len(old) THEN new[1][1] ELSE Len(old))) \o new
                                   ELSE LabelMerge(old, new, TRUE)

Init == /\ hist = <<>> /\ table = <<>>

Fit(B) == /\ hist = <<>>
          /\ (SumOver([l \in B |-> (l * l * 37 + l * 101 + 13) % 997], B)) % NSlices = Slice
          /\ hist' = <<B>>
          /\ table' = RowsOf(1, B)

Update(B) == /\ hist # <<>> /\ Len(hist) < MaxBatches
             /\ hist' = Append(hist, B)
             /\ table' = MergeCode(table, RowsOf(Len(hist) + 1, B))

Next == \E B \in Batches : Fit(B) \/ Update(B)

(* -------------------------------- invariants ---------------------------- *)
\* update == fit on the old and the new data combined
UpdateIsFitOnCombined == hist # <<>> => table = Combined(hist)
\* consequences, stated separately so that a refutation names what broke
LabelsOnceInOrder == \A k \in 1..(Len(table) - 1) : table[k][1] < table[k + 1][1]
NothingLost == hist # <<>> => LabelsOf(table) = UNION {hist[i] : i \in 1..Len(hist)}
NewRowsWin == hist # <<>> => \A l \in hist[Len(hist)] : RowAt(table, l)[2] = ValueOf(Len(hist), l)
\* a batch that lies entirely after the stored labels is appended: the table is the concatenation
AppendIsConcatenation ==
    (Len(hist) >= 2 /\ \A i \in 1..(Len(hist) - 1) : \A a \in hist[i], b \in hist[i + 1] : a < b)
        => table = [k \in 1..Len(table) |-> Combined(hist)[k]] /\ Len(table) = SumOver([i \in 1..Len(hist) |-> Cardinality(hist[i])], 1..Len(hist))
\* re-sending the labels of the last batch replaces exactly those rows
ResendReplaces ==
    (Len(hist) >= 2 /\ hist[Len(hist)] = hist[Len(hist) - 1])
        => LabelsOf(table) = UNION {hist[i] : i \in 1..(Len(hist) - 1)}

(* --------------------------------- emission ----------------------------- *)
CaseRecord == [batches |-> [i \in 1..Len(hist) |-> SortedSeq(hist[i])],
               combined |-> Combined(hist),
               kind |-> IF \A i \in 1..(Len(hist) - 1) : \A a \in hist[i], b \in hist[i + 1] : a < b THEN "append"
                        ELSE IF \A i \in 1..Len(hist) : hist[i] = Min(hist[i])..Max(hist[i]) THEN "consecutive" ELSE "general"]
EmitCase == (Emit /\ Len(hist) >= 2) => PrintT(<<"CASE", ToJson(CaseRecord)>>)
=============================================================================
