-------------------------------- MODULE Capa --------------------------------
(***************************************************************************)
(* IMPLEMENTATION LAYER for C03 / C16 / C04: run_base_capa, penalise_     *)
(* savings (three branches), optimise_savings, pruning, get_anomalies and *)
(* find_affected_components of skchange.anomaly_detectors.mvcapa, one     *)
(* action per loop iteration, same variables as the code:                 *)
(*   opt    = opt_savings        (index 0..N)                              *)
(*   astart = opt_anomaly_starts (index 0..N-1, -1 for NaN)                *)
(*   starts = admissible starts after pruning (a sequence, as the array)  *)
(*   pend   = pending prune decisions                                      *)
(* The saving table S is an arbitrary "program": any non-negative table   *)
(* that is sub-additive under splitting, generated from free unit values  *)
(* u and slacks d by  S(s,e) = max(0, min_k(S(s,k)+S(k,e)) - d(s,e)).     *)
(* The same table serves as collective and as point saving (unit          *)
(* intervals are only ever point anomalies because M >= 2).               *)
(*                                                                         *)
(* Mode constants select the repaired behaviour or, one at a time, the    *)
(* behaviour of the pinned tree (negative configurations):                *)
(*   StartMode  "index"   starts[argmax]      | "offset"  starts[0]+argmax *)
(*   AlphaMode  "once"    alpha charged once  | "percomp" alpha * P        *)
(*   EarlyPts   TRUE      points for t < M-1  | FALSE     loop from M-1    *)
(*   PointRow   "unit"    (i, i+1)            | "empty"   (i, i)           *)
(*   PruneMode  "delayed" M-1 iterations late | "immediate"                *)
(***************************************************************************)
EXTENDS AnomalySets, TLC, Json

CONSTANTS N, P, M, Mx, V,
          CAs, PAs,       \* sets of collective / point constant penalties
          BetaSel,        \* "zero" | "equal" | "general": family of collective per-component terms
          PBs,            \* set of (equal) point per-component terms
          StartMode, AlphaMode, EarlyPts, PointRow, PruneMode,
          Emit, NSlices, Slice

\* the pruning margin: "sum" = alpha + sum of the per-component terms (the code); a module-level switch for the
\* negative configuration "max" (alpha + largest term: prunes starts that are still needed when P >= 2)
MarginIsMax == PruneMode = "delayed_maxmargin"

ASSUME M >= 2 /\ Mx >= M /\ N >= 1 /\ P >= 1

Iv     == Intervals(N)
FreeIv == {iv \in Iv : LenOf(iv) >= 2}
Cmp    == Comp(P)

VARIABLES S, pen, t, opt, astart, starts, pend, pc, bi, coll, pts, evlog, u, d
vars == <<S, pen, t, opt, astart, starts, pend, pc, bi, coll, pts, evlog, u, d>>

Delay == IF PruneMode \in {"delayed", "delayed_maxmargin"} THEN M - 1 ELSE 0

(* ------------------------- table construction ------------------------- *)
Build(uu, dd) ==
    LET c[iv \in Iv] ==
          IF LenOf(iv) = 1 THEN uu[iv[1]]
          ELSE [j \in Cmp |->
                  Pos(Min({c[<<iv[1], k>>][j] + c[<<k, iv[2]>>][j] : k \in (iv[1] + 1)..(iv[2] - 1)})
                      - dd[iv][j])]
    IN c

BetaFamily == IF BetaSel = "zero" THEN {[j \in Cmp |-> 0]}
              ELSE IF BetaSel = "equal" THEN {[j \in Cmp |-> b] : b \in 0..2}
              ELSE [Cmp -> 0..2]

\* mixing coefficients so that the slices of the initial states have about equal size
Coef(k) == (k * k * 37 + k * 101 + 13) % 997
Weight(uu, dd) == SumOver([i \in 0..(N - 1) |-> SumOver([j \in Cmp |-> uu[i][j] * Coef(10 * i + j)], Cmp)], 0..(N - 1))
                  + SumOver([iv \in FreeIv |-> SumOver([j \in Cmp |-> dd[iv][j] * Coef(100 + 30 * iv[1] + 5 * iv[2] + j)], Cmp)], FreeIv)

Blank == /\ S = <<>> /\ t = 0 /\ opt = <<>> /\ astart = <<>> /\ starts = <<>> /\ pend = <<>>
         /\ bi = 0 /\ coll = {} /\ pts = {} /\ evlog = <<>>

Init ==
    /\ pc = "start" /\ Blank
    /\ u \in [0..(N - 1) -> [Cmp -> 0..V]]
    /\ d \in [FreeIv -> [Cmp -> 0..V]]
    /\ pen \in [ca : CAs, cb : BetaFamily, pa : PAs, pb : {[j \in Cmp |-> b] : b \in PBs}]
    /\ (Weight(u, d) + 331 * pen.ca + 577 * pen.pa + SumOver([j \in Cmp |-> pen.cb[j] * Coef(900 + j)], Cmp)) % NSlices = Slice

Start ==
    /\ pc = "start"
    /\ S' = Build(u, d)
    /\ t' = IF EarlyPts THEN 0 ELSE M - 1
    /\ opt' = [i \in 0..N |-> 0]
    /\ astart' = [i \in 0..(N - 1) |-> -1]
    /\ starts' = <<>> /\ pend' = <<>> /\ pc' = IF N - 1 < (IF EarlyPts THEN 0 ELSE M - 1) THEN "back" ELSE "loop"
    /\ bi' = N - 1 /\ coll' = {} /\ pts' = {} /\ evlog' = <<>>
    /\ UNCHANGED <<pen, u, d>>

(* --------------------------- penalise_savings -------------------------- *)
\* savings of one candidate sorted decreasingly (order among ties is irrelevant for the sums)
RECURSIVE SortDesc(_, _)
SortDesc(sv, T) == IF T = {} THEN <<>>
                   ELSE LET j == CHOOSE x \in T : \A y \in T : sv[y] <= sv[x]
                        IN <<sv[j]>> \o SortDesc(sv, T \ {j})
CumBest(sv, alpha, betas) ==
    LET q == SortDesc(sv, Cmp) IN Max({SumSeq(q, k) - SumSeq(betas, k) : k \in 1..P}) - alpha

PenCode(sv, alpha, betas) ==
    LET AllZero  == \A j \in Cmp : betas[j] = 0
        AllEqual == \A j \in Cmp : betas[j] = betas[1]
        Trunc    == [j \in Cmp |-> Pos(sv[j] - betas[1])]
    IN IF AlphaMode = "percomp"
       THEN (IF AllEqual THEN SumOver(Trunc, Cmp) - P * alpha ELSE CumBest(sv, alpha, betas))
       ELSE IF AllZero THEN SumOver(sv, Cmp) - alpha
       ELSE IF AllEqual THEN SumOver(Trunc, Cmp) - alpha
       ELSE CumBest(sv, alpha, betas)

(* ----------------------------- run_base_capa --------------------------- *)
Step ==
    /\ pc = "loop"
    /\ LET pcand == opt[t] + PenCode(S[<<t, t + 1>>], pen.pa, pen.pb) IN
       IF t < M - 1
       THEN \* only a point anomaly can end here
            /\ opt' = [opt EXCEPT ![t + 1] = Max({opt[t], pcand})]
            /\ astart' = IF pcand > opt[t] THEN [astart EXCEPT ![t] = t] ELSE astart
            /\ UNCHANGED <<starts, pend, evlog>>
       ELSE LET st      == Append(starts, t - M + 1)
                cand    == [i \in 1..Len(st) |-> opt[st[i]] + PenCode(S[<<st[i], t + 1>>], pen.ca, pen.cb)]
                bestc   == Max({cand[i] : i \in 1..Len(st)})
                best    == Max({opt[t], bestc, pcand})
                psum    == pen.ca + SumSeq(pen.cb, P)
                flagged == {st[i] : i \in {j \in 1..Len(st) : cand[j] + psum < best}}
                pend2   == Append(pend, flagged)
                keepLen == SelectSeq(st, LAMBDA s : ~(s < t - Mx + 2))
            IN /\ opt' = [opt EXCEPT ![t + 1] = best]
               /\ \E a \in {i \in 1..Len(st) : cand[i] = bestc} :       \* np.argmax: any maximiser
                    LET ostart == IF StartMode = "offset" THEN st[1] + (a - 1) ELSE st[a] IN
                    \* np.argmax([opt[t], collective, point]): the first maximiser wins
                    astart' = IF opt[t] >= bestc /\ opt[t] >= pcand THEN astart
                              ELSE IF bestc >= pcand THEN [astart EXCEPT ![t] = ostart]
                              ELSE [astart EXCEPT ![t] = t]
               /\ IF Len(pend2) > Delay
                  THEN /\ starts' = SelectSeq(keepLen, LAMBDA s : s \notin Head(pend2))
                       /\ pend' = Tail(pend2)
                  ELSE /\ starts' = keepLen /\ pend' = pend2
               /\ evlog' = Append(evlog, st)
    /\ t' = t + 1
    /\ pc' = IF t + 1 > N - 1 THEN "back" ELSE "loop"
    /\ UNCHANGED <<S, pen, bi, coll, pts, u, d>>

(* ------------------------------ get_anomalies -------------------------- *)
Back ==
    /\ pc = "back"
    /\ pc' = IF bi >= 0 THEN "back" ELSE "done"
    /\ IF bi < 0 THEN UNCHANGED <<bi, coll, pts>>
       ELSE LET st == astart[bi] size == bi - st + 1 IN
            IF st = -1 THEN bi' = bi - 1 /\ UNCHANGED <<coll, pts>>      \* NaN: no anomaly ends here
            ELSE IF size > 1
                 THEN coll' = coll \cup {<<st, bi + 1>>} /\ bi' = st - 1 /\ UNCHANGED pts
            ELSE IF size = 1
                 THEN /\ pts' = pts \cup {IF PointRow = "unit" THEN <<bi, bi + 1>> ELSE <<bi, bi>>}
                      /\ bi' = bi - 1 /\ UNCHANGED coll
            ELSE bi' = bi - 1 /\ UNCHANGED <<coll, pts>>
    /\ UNCHANGED <<S, pen, t, opt, astart, starts, pend, evlog, u, d>>

Next == Start \/ Step \/ Back

(* -------------------------------- invariants --------------------------- *)
Running == pc \in {"loop", "back", "done"}
T0 == IF EarlyPts THEN 0 ELSE M - 1

Ref == OptRef(S, pen, P, N, M, Mx)

\* the cumulative score at each time is the optimum of the prefix ending there
PrefixOptimal == Running => LET f == Ref IN \A T \in 1..N : (T <= t) => opt[T] = f[T]
NonNegNonDecr == Running => \A T \in 1..N : (T <= t) => opt[T] >= opt[T - 1] /\ opt[T] >= 0

\* enumeration of all valid anomaly sets, left to right (used for OptSets in the emission)
ValidRec ==
    LET g[T \in 0..N] ==
          IF T = 0 THEN {{}}
          ELSE g[T - 1] \cup UNION {{A \cup {<<s, T>>} : A \in g[s]} :
                                     s \in {x \in 0..(T - 1) : T - x = 1 \/ (T - x >= M /\ T - x <= Mx)}}
    IN g
\* lemmas tying the recursive forms to the set-theoretic definitions (once per table)
RefIsOpt == (pc = "loop" /\ t = T0) =>
               /\ \A T \in 1..N : Ref[T] = OptSaving(S, pen, P, T, M, Mx)
               /\ \A T \in 0..N : ValidRec[T] = ValidSets(T, M, Mx)

RefSeqIsRef == (pc = "loop" /\ t = T0) =>
    LET q == OptRefSeq(S, pen, P, N, M, Mx) IN \A T \in 0..N : q[T + 1] = Ref[T]

\* each branch of penalise_savings equals the definition whenever that is positive, and is <= 0
\* whenever the definition is <= 0 (then it cannot win the arg-max)
BranchAgrees == (pc = "loop" /\ t = T0) =>
    \A iv \in Iv : \A which \in {"c", "p"} :
        LET al == IF which = "c" THEN pen.ca ELSE pen.pa
            be == IF which = "c" THEN pen.cb ELSE pen.pb
            df == Pen(S[iv], al, be, P)
            cd == PenCode(S[iv], al, be)
        IN IF df > 0 THEN cd = df ELSE cd <= 0

\* no start that a later end still needs has been removed: every start already offered
\* (s <= t - M) that is an optimal last collective start of a future end is still in `starts`
PruneSound == pc = "loop" => LET f == Ref IN
    \A T \in (t + 1)..N : \A s \in 0..(t - M) :
        (T - s >= M /\ T - s <= Mx /\ f[s] + Pen(S[<<s, T>>], pen.ca, pen.cb, P) = f[T])
            => s \in Range(starts)

Anoms == coll \cup pts
\* C04 conjuncts for CAPA / MVCAPA and the re-evaluation sentence of C03
WellFormed == pc = "done" =>
    /\ \A a \in coll : a[1] >= 0 /\ a[2] <= N /\ IsCollective(a, M, Mx)
    /\ \A a \in pts : a[1] >= 0 /\ a[2] <= N /\ IsPoint(a)
    /\ \A a, b \in Anoms : a # b => DisjointIv(a, b)
ReEvaluate == pc = "done" => CapaAdmits(S, pen, P, N, M, Mx, opt, Anoms)
\* ignore_point_anomalies: the same set with exactly the point anomalies omitted
IgnorePoints == pc = "done" => coll = {a \in Anoms : ~IsPoint(a)}

TableAdmissible == Running => SubAdditive(S, P, N) /\ NonNegative(S, P, N)

(* ----------------------- find_affected_components ---------------------- *)
\* saving_order = argsort(-sv); penalised = cumsum(sv[order] - betas) - alpha; cols = order[:argmax+1]
RECURSIVE OrderDesc(_, _)
OrderDesc(sv, T) == IF T = {} THEN {<<>>}
                    ELSE UNION {{<<j>> \o q : q \in OrderDesc(sv, T \ {j})} :
                                  j \in {x \in T : \A y \in T : sv[y] <= sv[x]}}
AffectedCode(sv, alpha, betas) ==
    UNION {LET val(k) == SumSeq([i \in 1..P |-> sv[ord[i]]], k) - SumSeq(betas, k) - alpha
           IN {SubSeq(ord, 1, k) : k \in {kk \in 1..P : \A k2 \in 1..P : val(k2) <= val(kk)}}
           : ord \in OrderDesc(sv, Cmp)}
\* every column list the code can produce is admitted by the property layer (C16)
AffectedAdmitted == (pc = "loop" /\ t = T0) =>
    \A iv \in Iv : \A cols \in AffectedCode(S[iv], pen.ca, pen.cb) : ColsAdmit(S[iv], pen.ca, pen.cb, P, cols)

(* --------------------------------- emission ---------------------------- *)
\* all non-empty sequences of distinct components
RECURSIVE SeqsOver(_)
SeqsOver(T) == {<<>>} \cup UNION {{<<j>> \o q : q \in SeqsOver(T \ {j})} : j \in T}
AllColSeqs == SeqsOver(Cmp) \ {<<>>}
SeqOfIv(A) == SortedSeq({100 * a[1] + a[2] : a \in A})
CaseRecord ==
    LET f    == Ref
        best == f[N]
        vs   == ValidRec[N]
    IN
    [n |-> N, p |-> P, m |-> M, mx |-> Mx, ca |-> pen.ca, cb |-> pen.cb, pa |-> pen.pa, pb |-> pen.pb,
     S |-> [s \in 0..(N - 1) |-> [e \in 1..N |-> IF s < e THEN S[<<s, e>>] ELSE [j \in Cmp |-> 0]]],
     opt |-> [T \in 1..N |-> f[T]],
     scores |-> [T \in 1..N |-> opt[T]],
     optsets |-> {SeqOfIv(A) : A \in {B \in vs : Value(S, pen, P, B) = best}},
     evlog |-> evlog,
     \* C16: per interval the column lists admitted by the property layer under (ca, cb)
     admcols |-> IF P = 1 THEN <<>>
                 ELSE [s \in 0..(N - 1) |-> [e \in 1..N |->
                        IF s < e THEN {c \in AllColSeqs : ColsAdmit(S[<<s, e>>], pen.ca, pen.cb, P, c)} ELSE {}]],
     coll |-> SeqOfIv(coll), pts |-> SeqOfIv(pts)]
EmitDone == (Emit /\ pc = "done") => PrintT(<<"CASE", ToJson(CaseRecord)>>)
=============================================================================
