----------------------------- MODULE Trace_Capa -----------------------------
(***************************************************************************)
(* Stage C for C03 / C04 (CAPA, MVCAPA): recorded runs are validated      *)
(* against the PROPERTY layer AnomalySets.tla.                             *)
(* record: id, n, p, m, mx, ca, cb, pa, pb, tol, ignore,                  *)
(*         S (S[s+1][e][j], unit intervals hold the point saving),        *)
(*         scores (n entries), rows (reported [s, e] pairs in order).     *)
(***************************************************************************)
EXTENDS AnomalySets, TLC, Json, IOUtils

Cases == JsonDeserialize(IOEnv.TRACE_FILE)
VARIABLES tid, verdict

Tab(c) == [iv \in Intervals(c.n) |-> c.S[iv[1] + 1][iv[2]]]
Close(a, b, tol) == Abs(a - b) <= tol
PenOf(c) == [ca |-> c.ca, cb |-> c.cb, pa |-> c.pa, pb |-> c.pb]

Verdict(c) ==
    LET S    == Tab(c)
        pen  == PenOf(c)
        q    == OptRefSeq(S, pen, c.p, c.n, c.m, c.mx)
        f    == [T \in 0..c.n |-> q[T + 1]]
        rows == {<<c.rows[i][1], c.rows[i][2]>> : i \in 1..Len(c.rows)}
        covered(i) == \E a \in rows : a[1] <= i /\ i < a[2]
        pointGain  == SumOver([i \in 0..(c.n - 1) |->
                          IF covered(i) THEN 0 ELSE Pos(Pen(S[<<i, i + 1>>], c.pa, c.pb, c.p))], 0..(c.n - 1))
        \* sub-additivity is only needed (and only recorded) for admissible collective pieces
        subadd == c.n > 40 \/ \A iv \in Intervals(c.n) : \A k \in (iv[1] + c.m)..(iv[2] - c.m) : \A j \in 1..c.p :
                      S[iv][j] <= S[<<iv[1], k>>][j] + S[<<k, iv[2]>>][j] + c.tol
    IN IF \E i \in 1..Len(c.rows) : ~(0 <= c.rows[i][1] /\ c.rows[i][1] < c.rows[i][2] /\ c.rows[i][2] <= c.n)
         THEN "fail:interval_empty_or_outside_data"
       ELSE IF \E i \in 1..(Len(c.rows) - 1) : c.rows[i][2] > c.rows[i + 1][1]
         THEN "fail:not_sorted_disjoint"
       ELSE IF \E a \in rows : ~(IsPoint(a) \/ IsCollective(a, c.m, c.mx))
         THEN "fail:length_outside_limits"
       ELSE IF c.ignore /\ \E a \in rows : IsPoint(a) THEN "fail:point_anomaly_not_ignored"
       ELSE IF ~subadd THEN "skip:saving_not_subadditive"
       ELSE IF \E T \in 1..c.n : c.scores[T] < 0 - c.tol \/ (T > 1 /\ c.scores[T] < c.scores[T - 1] - c.tol)
         THEN "fail:score_negative_or_decreasing"
       ELSE IF \E T \in 1..c.n : ~Close(c.scores[T], f[T], c.tol) THEN "fail:prefix_optimum"
       ELSE IF ~c.ignore /\ ~Close(Value(S, pen, c.p, rows), c.scores[c.n], c.tol) THEN "fail:reevaluation"
       ELSE IF c.ignore /\ ~Close(Value(S, pen, c.p, rows) + pointGain, c.scores[c.n], c.tol)
         THEN "fail:ignored_points_reevaluation"
       ELSE "ok"

(* C16 records ("cols"): p, tol, rows = list of [cols, sv, alpha, betas] -- for each reported     *)
(* anomaly the reported column list (1-based), the component savings recorded from an           *)
(* independent saving and the sparse / point penalty in force; dense_ok = transform marks       *)
(* exactly these columns on exactly these rows (decided by Formats' S2DSubset in the harness'   *)
(* C05 pipeline and passed as a boolean).                                                        *)
ColsVerdict(c) ==
    LET rowOK(r) ==
          LET cols == r[1] sv == r[2] alpha == r[3] betas == r[4]
              val(k) == LET top == CHOOSE T \in SUBSET (1..c.p) : Cardinality(T) = k /\ TopK(sv, T, c.p)
                        IN SumOver(sv, top) - alpha - SumSeq(betas, k)
              best == Max({val(k) : k \in 1..c.p})
              decisive == /\ \A i, j \in 1..c.p : i # j => Abs(sv[i] - sv[j]) > c.tol
                          /\ \A k \in 1..c.p : val(k) = best \/ val(k) < best - c.tol
          IN IF ~decisive THEN "skip" ELSE IF ColsAdmit(sv, alpha, betas, c.p, cols) THEN "ok" ELSE "bad"
        res == {rowOK(c.rows[i]) : i \in 1..Len(c.rows)}
    IN IF \E i \in 1..Len(c.rows) : LET cols == c.rows[i][1] IN
             ~(Len(cols) >= 1 /\ Cardinality(Range(cols)) = Len(cols) /\ Range(cols) \subseteq 1..c.p)
         THEN "fail:columns_not_well_formed"
       ELSE IF "bad" \in res THEN "fail:affected_columns_not_the_optimal_subset"
       ELSE IF ~c.dense_ok THEN "fail:transform_marks_other_cells"
       ELSE IF "skip" \in res THEN "skip:ties_within_rounding"
       ELSE "ok"

Init == tid = 0 /\ verdict = "start"
Next == /\ tid < Len(Cases)
        /\ tid' = tid + 1
        /\ verdict' = IF Cases[tid + 1].rec = "cols" THEN ColsVerdict(Cases[tid + 1]) ELSE Verdict(Cases[tid + 1])
        /\ PrintT(<<"VERDICT", Cases[tid + 1].id, verdict'>>)
=============================================================================
