----------------------------- MODULE ArithLemmas -----------------------------
(***************************************************************************)
(* One-step linear-arithmetic facts the implementation-layer specs rely   *)
(* on, over UNBOUNDED integers (all n, all positions, all min_size),      *)
(* checked with Apalache (`apalache-mc check --length=0 --init=Init       *)
(* --inv=<Lemma>`): the initial predicate leaves every variable free, so  *)
(* an invariant of the initial states is a universally quantified         *)
(* arithmetic statement.  TLC's verdicts are bounded by the constants;    *)
(* these complement them.  No verdict of any check depends on this module;*)
(* the thorough tier of C13 runs it and reports it in the evidence.       *)
(***************************************************************************)
EXTENDS Integers

VARIABLES
  \* @type: Int;
  n,
  \* @type: Int;
  s,
  \* @type: Int;
  k,
  \* @type: Int;
  e,
  \* @type: Int;
  a,
  \* @type: Int;
  b,
  \* @type: Int;
  m

Init == /\ n \in Int /\ s \in Int /\ k \in Int /\ e \in Int /\ a \in Int /\ b \in Int /\ m \in Int
        /\ n >= 1 /\ m >= 1
Next == UNCHANGED <<n, s, k, e, a, b, m>>

InRange(i) == 0 <= i /\ i <= n

\* C13: a 3-point cut accepted by the (repaired) check never makes a prefix-sum kernel wrap or raise
CheckChange == k - s >= m /\ e - k >= m /\ s >= 0 /\ e <= n
CutsNoSilentWrap == CheckChange => (InRange(s) /\ InRange(k) /\ InRange(e) /\ s < k /\ k < e)
\* ... and the pinned check (no bounds conjunct) does NOT have this property (negative lemma: must fail)
CheckChangePinned == k - s >= m /\ e - k >= m
CutsPinnedWouldWrap == CheckChangePinned => (InRange(s) /\ InRange(k) /\ InRange(e))

\* C13: a 4-point cut accepted by LocalAnomalyScore's check lies inside the data, strictly increasing
CheckLocal == s < a /\ a < b /\ b < e /\ b - a >= m /\ (a - s) + (e - b) >= m /\ s >= 0 /\ e <= n
LocalNoSilentWrap == CheckLocal => (InRange(s) /\ InRange(a) /\ InRange(b) /\ InRange(e))

\* C08 / C14: the moving-window cut (t-b, t, t+b), b = m, is inside the data for every b <= t <= n - b
WindowInside == (m <= k /\ k <= n - m) => (0 <= k - m /\ k - m < k /\ k < k + m /\ k + m <= n)

\* C04 / C07: a split point picked inside [s+m, e-m] of an interval [s, e) that does not contain an
\* earlier pick a (a < s or a >= e) is at least m away from it; and at least m from both ends of the data
PickSpacing == (s >= 0 /\ e <= n /\ s + m <= k /\ k <= e - m /\ (a < s \/ a >= e))
                  => ((k - a >= m \/ a - k >= m) /\ k >= m /\ k <= n - m)

\* C04 / C09: an inner interval (a, b) of a candidate [s, e) inside the data lies strictly inside the data
InnerStrictlyInside == (s >= 0 /\ e <= n /\ s < a /\ b < e /\ b - a >= m) => (a >= 1 /\ b <= n - 1 /\ b - a >= m)

\* C02: the start t-m+1 PELT adds when the prefix end is t+1 >= 2m gives a segment of exactly m >= min_size
\* samples, and never lies in 1..m-1 (k plays the role of t)
PeltLatestStart == (k + 1 >= 2 * m) => ((k + 1) - (k - m + 1) = m /\ (k - m + 1 >= m))

\* C14 (Config.SearchCount): the moving window's search range b..n-b holds n - 2b + 1 >= 1 splits exactly when the data
\* reach the documented minimum length 2b (m plays the role of the bandwidth)
WindowSearchCount == ((n >= 2 * m) <=> (n - 2 * m + 1 >= 1)) /\ ((n >= 2 * m) => (m <= n - m))

\* C07 / C14: with n >= 2M and max_interval_length b >= 2M the longest seeded interval, of length min(b, n), fits the data
\* and leaves M samples on both sides of some split
SeededIntervalExists == (n >= 2 * m /\ b >= 2 * m) =>
    LET len == IF b < n THEN b ELSE n IN len >= 2 * m /\ len <= n /\ (0 + m <= len - m)

\* C15 (ScorerSizes.ParamSizeDef): the parameter count of the multivariate Gaussian cost, k + k(k+1)/2 for k columns, grows
\* strictly with k and is at least 2k (non-linear: checked for all k >= 1 by the SMT solver)
CovParamSizeGrows == (k >= 1) =>
    /\ k + (k * (k + 1)) \div 2 < (k + 1) + ((k + 1) * (k + 2)) \div 2
    /\ k + (k * (k + 1)) \div 2 >= 2 * k
=============================================================================
