-------------------------------- MODULE Costs --------------------------------
(***************************************************************************)
(* IMPLEMENTATION LAYER for C01 / C06: the fitted state of the built-in   *)
(* costs as the code builds it and the kernels that read it.               *)
(*   sums, sums2 : (n+1) x P prefix arrays with a zero first row          *)
(*                 (col_cumsum(init_zero = True) of X and X**2)           *)
(*   Xfit        : the stored data (GaussianCovCost.X_, slices X[s:e])    *)
(* Actions: Fit, then any number (bounded by MaxEvals) of Evaluate calls  *)
(* with a batch of 1 or 2 admissible intervals; each call returns, per    *)
(* row, the sufficient statistics the kernels derive:                      *)
(*   prefix kernels: sums[e] - sums[s], sums2[e] - sums2[s], n = e - s    *)
(*   slice kernels : the cross moments of Xfit[s:e]                        *)
(* `seen` collects (interval, returned statistics) over the whole history.*)
(*                                                                         *)
(* EvalMode = "pure" | "inplace" (a kernel that centres the slice IN      *)
(* PLACE, i.e. writes to the fitted data: negative configuration, must    *)
(* violate BatchIndependent / FitStateUnchanged).                          *)
(* CumMode = "zero_first" | "no_zero_row" | "ends_minus_one" (off-by-one  *)
(* variants of the prefix kernel: negative configurations).               *)
(***************************************************************************)
EXTENDS CostsDefs, TLC, Json

CONSTANTS N, P, VNeg, VPos, MaxEvals, EvalMode, CumMode, Emit, NSlices, Slice

Vals == (0 - VNeg)..VPos      \* data values (cfg files cannot hold negative numbers)

VARIABLES X, sums, sums2, Xfit, pc, seen, nev
vars == <<X, sums, sums2, Xfit, pc, seen, nev>>

Iv == Intervals(N)

RECURSIVE CumCol(_, _, _, _)
\* cumulative sum of column j (pw = 1) or of its squares (pw = 2) over rows 0..i-1
CumCol(D, i, j, pw) == IF i = 0 THEN 0
                       ELSE (IF pw = 1 THEN D[i - 1][j] ELSE D[i - 1][j] * D[i - 1][j]) + CumCol(D, i - 1, j, pw)

Init ==
    /\ X \in [0..(N - 1) -> [1..P -> Vals]]
    /\ SumOver([i \in 0..(N - 1) |-> SumOver([j \in 1..P |-> (X[i][j] + 7) * ((37 * (i * P + j) * (i * P + j) + 101 * (i * P + j) + 13) % 997)], 1..P)], 0..(N - 1)) % NSlices = Slice
    /\ sums = <<>> /\ sums2 = <<>> /\ Xfit = <<>> /\ pc = "new" /\ seen = {} /\ nev = 0

\* _fit: sums_ = col_cumsum(X, init_zero=True); sums2_ = col_cumsum(X**2, init_zero=True); X_ = X
Fit ==
    /\ pc = "new" /\ pc' = "fitted"
    /\ sums'  = [i \in 0..N |-> [j \in 1..P |-> IF CumMode = "no_zero_row" THEN CumCol(X, IF i < N THEN i + 1 ELSE N, j, 1)
                                                 ELSE CumCol(X, i, j, 1)]]
    /\ sums2' = [i \in 0..N |-> [j \in 1..P |-> IF CumMode = "no_zero_row" THEN CumCol(X, IF i < N THEN i + 1 ELSE N, j, 2)
                                                 ELSE CumCol(X, i, j, 2)]]
    /\ Xfit' = X
    /\ UNCHANGED <<X, seen, nev>>

\* what the kernels return for one interval
KernelStats(s, e) ==
    LET ee == IF CumMode = "ends_minus_one" THEN e - 1 ELSE e IN
    [len |-> e - s,
     s1  |-> [j \in 1..P |-> sums[ee][j] - sums[s][j]],
     s2  |-> [j \in 1..P |-> [k \in 1..P |-> IF j = k THEN sums2[ee][j] - sums2[s][j]
                                             ELSE S2(Xfit, s, e, j, k)]]]     \* cross moments: slice kernel
\* diagonal second moments of the slice kernel must agree with the prefix kernel
SliceDiag(s, e) == [j \in 1..P |-> S2(Xfit, s, e, j, j)]

Evaluate ==
    /\ pc = "fitted" /\ nev < MaxEvals
    /\ \E batch \in {<<a>> : a \in Iv} \cup {<<a, b>> : a \in Iv, b \in Iv} :
          /\ seen' = seen \cup {<<batch[k], KernelStats(batch[k][1], batch[k][2]), SliceDiag(batch[k][1], batch[k][2])>> : k \in 1..Len(batch)}
          /\ Xfit' = IF EvalMode = "inplace"
                     THEN [i \in 0..(N - 1) |-> IF \E k \in 1..Len(batch) : batch[k][1] <= i /\ i < batch[k][2]
                                                THEN [j \in 1..P |-> Xfit[i][j] - 1] ELSE Xfit[i]]
                     ELSE Xfit
    /\ nev' = nev + 1
    /\ UNCHANGED <<X, sums, sums2, pc>>

Next == Fit \/ Evaluate

(* -------------------------------- invariants --------------------------- *)
\* the kernel's difference of prefix rows is the direct sum over the rows of the slice
PrefixDefinition == pc = "fitted" =>
    \A iv \in Iv : KernelStats(iv[1], iv[2]) = Stats(X, iv[1], iv[2], P)
\* every row ever returned equals the definition on the ORIGINAL data, whatever the batch and
\* whatever was evaluated before
BatchIndependent ==
    \A r \in seen : r[2] = Stats(X, r[1][1], r[1][2], P) /\ r[3] = [j \in 1..P |-> S2(X, r[1][1], r[1][2], j, j)]
\* evaluate never changes the fitted state
FitStateUnchanged == pc = "fitted" => Xfit = X

(* ------------------ C06 identities, exact, on every slice --------------- *)
Identities == pc = "new" =>
    /\ \A iv \in Iv : \A j \in 1..P :
          LET st == Stats(X, iv[1], iv[2], P) IN
          /\ L2SavingIsSaving0(st, j) /\ LenRSS(st, j) >= 0
          /\ \A mu \in Vals : OptLeFixed(st, j, mu)
          /\ (P <= 3 => ScatterDet(st, P) >= 0)                 \* scatter matrices are PSD
    /\ \A iv \in Iv : \A k \in (iv[1] + 1)..(iv[2] - 1) : \A j \in 1..P :
          LET a == Stats(X, iv[1], k, P) b == Stats(X, k, iv[2], P) IN
          /\ AddStats(a, b, P) = Stats(X, iv[1], iv[2], P)      \* statistics are additive
          /\ CusumIsL2Score(a, b, j, P)
          /\ SplitNeverIncreasesL2(a, b, j, P)
          /\ VarianceDecomposition(a, b, j, P)

(* ------------------------ C12 symmetries, exact ------------------------ *)
Symmetries == pc = "new" =>
    \A iv \in Iv :
       LET s == iv[1] e == iv[2] st == Stats(X, s, e, P) IN
       \* time reversal maps the slice [s, e) to [n-e, n-s)
       /\ Stats(ReverseRows(X, N), N - e, N - s, P) = st
       \* a per-column shift leaves every centred second moment unchanged
       /\ \A c \in [1..P -> {-1, 2}] :
             LET sh == Stats(ShiftRows(X, N, P, c), s, e, P) IN
             \A j, k \in 1..P : Scatter(sh, j, k) = Scatter(st, j, k)
       \* a scale factor c multiplies every centred second moment by c^2
       /\ \A c \in {2, 3} :
             LET sc == Stats(ScaleRows(X, N, P, c), s, e, P) IN
             \A j, k \in 1..P : Scatter(sc, j, k) = c * c * Scatter(st, j, k)
       \* permuting the columns permutes the per-column statistics
       /\ (P = 2 => LET pm == Stats(PermuteCols(X, N, P, <<2, 1>>), s, e, P) IN
                    pm.s1[1] = st.s1[2] /\ pm.s2[1][1] = st.s2[2][2] /\ pm.s2[1][2] = st.s2[2][1])

(* --------------------------------- emission ---------------------------- *)
CaseRecord ==
    [n |-> N, p |-> P,
     X |-> [i \in 1..N |-> X[i - 1]],
     stats |-> [s \in 0..(N - 1) |-> [e \in 1..N |->
                  IF s < e THEN LET st == Stats(X, s, e, P) IN
                       [len |-> st.len, s1 |-> st.s1, s2 |-> st.s2,
                        det |-> IF P <= 3 THEN ScatterDet(st, P) ELSE 0 - 1]
                  ELSE [len |-> 0, s1 |-> <<>>, s2 |-> <<>>, det |-> 0]]]]
EmitFitted == (Emit /\ pc = "fitted" /\ nev = 0) => PrintT(<<"CASE", ToJson(CaseRecord)>>)
=============================================================================
