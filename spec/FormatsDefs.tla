----------------------------- MODULE FormatsDefs ----------------------------
(***************************************************************************)
(* Operators of the Formats specification (no constants, no variables) so *)
(* that both the state machine Formats.tla and the trace specification    *)
(* Trace_Formats.tla can use them.  See Formats.tla for the description.  *)
(***************************************************************************)
EXTENDS Common


(* ===================== property layer: what the labels are ============= *)
\* change detectors: cps is a set of positions in 1..n-1
S2DChange(cps, n) == [i \in 0..(n - 1) |-> Cardinality({c \in cps : c <= i})]
D2SChange(dense, n) == {i \in 1..(n - 1) : dense[i] # dense[i - 1]}

\* collective anomalies: rows is a set of records [s, e, label], pairwise disjoint
Covers(r, i) == r.s <= i /\ i < r.e
S2DAnom(rows, n) == [i \in 0..(n - 1) |->
      IF \E r \in rows : Covers(r, i) THEN (CHOOSE r \in rows : Covers(r, i)).label ELSE 0]
\* maximal runs of one positive label
D2SAnom(dense, n) == {[s |-> w[1], e |-> w[2], label |-> dense[w[1]]] : w \in
      {w \in (0..(n - 1)) \X (1..n) :
          /\ w[1] < w[2] /\ dense[w[1]] > 0
          /\ \A i \in w[1]..(w[2] - 1) : dense[i] = dense[w[1]]
          /\ (w[1] = 0 \/ dense[w[1] - 1] # dense[w[1]])
          /\ (w[2] = n \/ dense[w[2]] # dense[w[1]])}}

\* subset anomalies: rows carry a non-empty set of column positions cols \subseteq 0..p-1
S2DSubset(rows, n, p) == [i \in 0..(n - 1) |-> [j \in 0..(p - 1) |->
      IF \E r \in rows : Covers(r, i) /\ j \in r.cols
      THEN (CHOOSE r \in rows : Covers(r, i) /\ j \in r.cols).label ELSE 0]]

(* ======================= C04: well-formed outputs ====================== *)
\* changepoints as reported (a sequence): strictly increasing positions in [1, n-1]; every
\* segment, first and last included, at least `minseg` long; all inside [lo, hi]
WFChange(cps, n, minseg, lo, hi) ==
    /\ IsStrictlyIncreasing(cps)
    /\ \A i \in 1..Len(cps) : cps[i] >= 1 /\ cps[i] <= n - 1 /\ cps[i] >= lo /\ cps[i] <= hi
    /\ LET b == <<0>> \o cps \o <<n>> IN \A i \in 1..(Len(b) - 1) : b[i + 1] - b[i] >= minseg

\* anomaly rows as reported (a sequence of [s, e, label]): sorted, pairwise disjoint, non-empty,
\* inside [0, n], labelled 1..K in order
WFAnomSeq(rows, n) ==
    /\ \A i \in 1..Len(rows) : 0 <= rows[i].s /\ rows[i].s < rows[i].e /\ rows[i].e <= n
                               /\ rows[i].label = i
    /\ \A i \in 1..(Len(rows) - 1) : rows[i].e <= rows[i + 1].s
\* CAPA / MVCAPA: collective anomalies within [m, mx], point anomalies of length 1
WFCapaLengths(rows, m, mx) ==
    \A i \in 1..Len(rows) : LET l == rows[i].e - rows[i].s IN l = 1 \/ (l >= m /\ l <= mx)
\* circular binary segmentation: at least m long and strictly inside the data
WFInside(rows, n, m) ==
    \A i \in 1..Len(rows) : rows[i].e - rows[i].s >= m /\ rows[i].s >= 1 /\ rows[i].e <= n - 1
\* MVCAPA: non-empty list of distinct valid column positions
WFCols(cols, p) == /\ Len(cols) >= 1 /\ Cardinality(Range(cols)) = Len(cols)
                   /\ Range(cols) \subseteq 0..(p - 1)

WFAnomRows(rows, n) ==    \* the same for a SET of rows (hand-built sparse outputs of C05)
    /\ \A r \in rows : 0 <= r.s /\ r.s < r.e /\ r.e <= n
    /\ \A r, q \in rows : r # q => (r.e <= q.s \/ q.e <= r.s)
    /\ {r.label : r \in rows} = 1..Cardinality(rows)
    /\ \A r, q \in rows : r.s < q.s => r.label < q.label

(* ============ implementation layer: the converters as coded ============ *)
\* ordered list of the rows (the sparse frame is sorted by construction)
RowSeq(rows) == [k \in 1..Cardinality(rows) |-> CHOOSE r \in rows : r.label = k]

\* ChangeDetector.sparse_to_dense: labels[cp[i] : cp[i+1]] = i over [0] + cps + [n]
S2DChangeCode(cps, n) ==
    LET b == <<0>> \o SortedSeq(cps) \o <<n>>
        RECURSIVE Fill(_, _)
        Fill(lab, i) == IF i > Len(b) - 1 THEN lab
                        ELSE Fill([k \in 0..(n - 1) |-> IF b[i] <= k /\ k < b[i + 1] THEN i - 1 ELSE lab[k]], i + 1)
    IN Fill([k \in 0..(n - 1) |-> 0], 1)
\* ChangeDetector.dense_to_sparse: rows where labels.diff().abs() > 0
D2SChangeCode(dense, n, idx, Lookup) ==
    LET pos == {i \in 1..(n - 1) : Abs(dense[i] - dense[i - 1]) > 0}
    IN IF Lookup = "position" THEN pos ELSE {idx[i] : i \in pos}

\* CollectiveAnomalyDetector.sparse_to_dense: IntervalIndex(ilocs).get_indexer(keys) + 1
S2DAnomCode(rows, n, idx, Lookup) ==
    LET q == RowSeq(rows)
        key(i) == IF Lookup = "position" THEN i ELSE idx[i]
        hit(i) == {k \in 1..Len(q) : q[k].s <= key(i) /\ key(i) < q[k].e}
    IN [i \in 0..(n - 1) |-> IF hit(i) = {} THEN 0 ELSE Min(hit(i))]
\* CollectiveAnomalyDetector.dense_to_sparse: run detection on the positions with label > 0
D2SAnomCode(dense, n, Split) ==
    LET loc == SortedSeq({i \in 0..(n - 1) : dense[i] > 0})
        K == Len(loc)
        isNew(k) == k > 1 /\ (loc[k] - loc[k - 1] > 1
                              \/ (Split = "gap_or_label" /\ dense[loc[k]] # dense[loc[k - 1]]))
        starts == SortedSeq({loc[k] : k \in {j \in 1..K : j = 1 \/ isNew(j)}})
        ends == SortedSeq({loc[k] + 1 : k \in {j \in 1..K : j = K \/ isNew(j + 1)}})
    IN {[s |-> starts[k], e |-> ends[k], label |-> k] : k \in 1..Len(starts)}

\* SubsetCollectiveAnomalyDetector.sparse_to_dense: labels[start:end, cols] = i + 1, in row order
S2DSubsetCode(rows, n, p) ==
    LET q == RowSeq(rows)
        RECURSIVE Fill(_, _)
        Fill(lab, k) == IF k > Len(q) THEN lab
                        ELSE Fill([i \in 0..(n - 1) |-> [j \in 0..(p - 1) |->
                                     IF q[k].s <= i /\ i < q[k].e /\ j \in q[k].cols THEN k ELSE lab[i][j]]], k + 1)
    IN Fill([i \in 0..(n - 1) |-> [j \in 0..(p - 1) |-> 0]], 1)
\* SubsetCollectiveAnomalyDetector.dense_to_sparse: per positive label, any-column / first-last row
D2SSubsetCode(dense, n, p) ==
    LET labs == {dense[i][j] : i \in 0..(n - 1), j \in 0..(p - 1)} \ {0}
        rowsOf(l) == {i \in 0..(n - 1) : \E j \in 0..(p - 1) : dense[i][j] = l}
        colsOf(l) == {j \in 0..(p - 1) : \E i \in 0..(n - 1) : dense[i][j] = l}
        rank(l) == Cardinality({x \in labs : x <= l})
    IN {[s |-> Min(rowsOf(l)), e |-> Max(rowsOf(l)) + 1, label |-> rank(l), cols |-> colsOf(l)] : l \in labs}

=============================================================================
