--------------------------- MODULE SeededIntervals ---------------------------
(***************************************************************************)
(* Growth beyond the listed properties (DESIGN section 11): the SHIFT     *)
(* STRUCTURE of make_seeded_intervals (seeded_binseg.py).                 *)
(*                                                                         *)
(* The interval lengths and steps come from log / geomspace / rounding    *)
(* and are inputs here (Lens: the rounded geometric lengths, StepOf: the  *)
(* rounded step per length).  Modelled is the loop of the code, one       *)
(* action per interval length: starts i*step for i = 0..ceil((n-len)/step)*)
(* ends min(i*step+len, n), and the adjustment of the LAST interval of    *)
(* the whole list when it is shorter than min_length.                     *)
(* Invariants (none of them is a listed property; C07 only requires       *)
(* admissibility and non-emptiness):                                       *)
(*   AllAdmissible   every interval lies in [0,n] with length in          *)
(*                   [MinLen, its block's length]                          *)
(*   BlockReachesEnd every block starts at 0 and its last interval ends   *)
(*                   at n                                                  *)
(*   BlockOverlaps   consecutive intervals of a block overlap or touch    *)
(*                   when step <= len (so each block covers [0,n])        *)
(*   OnlyLastAdjusted the short-interval adjustment can only ever apply   *)
(*                   to the final block (a short last interval of an      *)
(*                   EARLIER block would stay short) -- checked as: every *)
(*                   block's last interval is at least MinLen long        *)
(* TLC checks them for every n, MinLen, set of lengths and step map       *)
(* within the constants; recorded interval lists of the real function are *)
(* validated against the same structure by Trace_Binseg (IntervalsVerdict)*)
(***************************************************************************)
EXTENDS Common, TLC

CONSTANTS NMax, StepMode      \* StepMode = "half" (step <= len/2, growth_factor <= 2) | "any"

VARIABLES n, minlen, lens, steps, k, starts, ends, blocks, pc
vars == <<n, minlen, lens, steps, k, starts, ends, blocks, pc>>

CeilDiv(a, b) == IF a <= 0 THEN 0 ELSE (a + b - 1) \div b

Init ==
    /\ n \in 2..NMax
    /\ minlen \in 2..n
    /\ \E L \in SUBSET (minlen..n) : L # {} /\ minlen \in L /\ lens = SortedSeq(L)    \* geomspace starts at min_length
    /\ steps \in [1..Len(lens) -> 1..n]
    /\ \A i \in 1..Len(lens) : IF StepMode = "half" THEN steps[i] >= 1 /\ 2 * steps[i] <= lens[i] + 1 ELSE TRUE
    /\ k = 1 /\ starts = <<>> /\ ends = <<>> /\ blocks = <<>> /\ pc = "loop"

Loop ==
    /\ pc = "loop"
    /\ IF k <= Len(lens)
       THEN LET len == lens[k] step == steps[k]
                nsteps == CeilDiv(n - len, step)
                ns == [i \in 1..(nsteps + 1) |-> (i - 1) * step]
                ne == [i \in 1..(nsteps + 1) |-> IF (i - 1) * step + len < n THEN (i - 1) * step + len ELSE n]
                all_s == starts \o ns
                all_e == ends \o ne
                last == Len(all_s)
                \* if ends[-1] - starts[-1] < min_length: starts[-1] = n - min_length
                adj_s == IF all_e[last] - all_s[last] < minlen THEN [all_s EXCEPT ![last] = n - minlen] ELSE all_s
            IN /\ starts' = adj_s /\ ends' = all_e
               /\ blocks' = Append(blocks, <<Len(starts) + 1, last>>)
               /\ k' = k + 1 /\ pc' = "loop"
       ELSE pc' = "done" /\ UNCHANGED <<starts, ends, blocks, k>>
    /\ UNCHANGED <<n, minlen, lens, steps>>

Next == Loop

BlockOf(i) == CHOOSE b \in 1..Len(blocks) : blocks[b][1] <= i /\ i <= blocks[b][2]
AllAdmissible == \A i \in 1..Len(starts) :
    /\ 0 <= starts[i] /\ ends[i] <= n
    /\ ends[i] - starts[i] >= minlen /\ ends[i] - starts[i] <= lens[BlockOf(i)]
BlockReachesEnd == \A b \in 1..Len(blocks) : starts[blocks[b][1]] = 0 /\ ends[blocks[b][2]] = n
BlockOverlaps == \A b \in 1..Len(blocks) : steps[b] <= lens[b] =>
    \A i \in blocks[b][1]..(blocks[b][2] - 1) : starts[i + 1] <= ends[i]
NonEmpty == pc = "done" => Len(starts) >= 1
=============================================================================
