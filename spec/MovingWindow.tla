---------------------------- MODULE MovingWindow ----------------------------
(***************************************************************************)
(* C08: moving_window_transform, where() and get_moving_window_           *)
(* changepoints of skchange.change_detectors.moving_window.               *)
(*                                                                         *)
(* PROPERTY LAYER: the score at t is the change score of the cut          *)
(* (t-b, t, t+b) for b <= t <= n-b and 0 elsewhere; changepoints are a    *)
(* maximiser of the score in every maximal run of at least mdi            *)
(* consecutive exceedances (Runs / PeaksAdmit, set-theoretic).            *)
(* IMPLEMENTATION LAYER: the window construction (splits, starts, ends),  *)
(* where() as the scan automaton of the code (variables i, start,         *)
(* intervals; one action per loop iteration) and the arg-max per run.     *)
(*                                                                         *)
(* The change score is a user-defined "program": a table sv over the      *)
(* exact cuts (t-b, t, t+b); any OTHER cut the implementation might       *)
(* evaluate scores Hash(t) outside the table's range, so a wrong window   *)
(* is visible in the scores.                                               *)
(* LeftWindow = "full" (repaired: starts = t-b) | "short" (pinned tree:   *)
(* starts = t-b+1; negative configuration).                                *)
(* Thresholds are multiples of 1/2: Thr2 = 2 * threshold.  Odd Thr2 never  *)
(* ties with a score; even Thr2 does, and "exceeds" is strict.  Exceed =   *)
(* "strict" (the code: scores > threshold) | "weak" (>=; negative config). *)
(***************************************************************************)
EXTENDS MovingWindowDefs, TLC, Json

CONSTANTS N, B, V, Thr2s, Mdis, LeftWindow, Exceed, Emit, NSlices, Slice

ASSUME N >= 2 * B /\ B >= 1

Splits == B..(N - B)

VARIABLES sv, thr2, mdi, scores, i, start, ivs, cps, pc
vars == <<sv, thr2, mdi, scores, i, start, ivs, cps, pc>>

(* ------------------------------ property layer ------------------------- *)
Cut(t) == <<t - B, t, t + B>>
\* symmetric two-sided score: table value on [B, N-B], 0 elsewhere
ScoreDef(tab) == [t \in 0..(N - 1) |-> IF t \in Splits THEN tab[t] ELSE 0]

Exceeds(sc, th2) == [t \in 0..(N - 1) |-> 2 * sc[t] > th2]
Runs(ex) == RunsN(ex, N)
PeaksAdmit(sc, th2, md, cpset) == PeaksAdmitN(sc, Exceeds(sc, th2), md, N, cpset, 0)
\* all admitted changepoint sets (one maximiser per qualifying run), built run by run ...
RECURSIVE PickPeaks(_, _)
PickPeaks(sc, R) ==
    IF R = {} THEN {{}}
    ELSE LET r == CHOOSE x \in R : TRUE
             best == {c \in r[1]..(r[2] - 1) : \A k \in r[1]..(r[2] - 1) : sc[k] <= sc[c]}
         IN UNION {{A \cup {c} : c \in best} : A \in PickPeaks(sc, R \ {r})}
AdmittedSets(sc, th2, md) == PickPeaks(sc, {r \in Runs(Exceeds(sc, th2)) : r[2] - r[1] >= md})
\* ... which is exactly the set of solutions of the defining predicate (lemma, checked by TLC)
AdmittedSetsIsDefinition == pc = "transform" =>
    AdmittedSets(ScoreDef(sv), thr2, mdi) = {cpset \in SUBSET (0..(N - 1)) : PeaksAdmit(ScoreDef(sv), thr2, mdi, cpset)}
\* unique run maxima: the discrete output is determined
Decisive(sc, th2, md) == Cardinality(AdmittedSets(sc, th2, md)) = 1

(* --------------------------- implementation layer ---------------------- *)
Hash(t) == 1000 + t
\* starts = splits - bandwidth (+ 1 on the pinned tree), ends = splits + bandwidth
WindowOf(t) == <<IF LeftWindow = "full" THEN t - B ELSE t - B + 1, t, t + B>>
Evaluate(tab, cut) == IF cut = Cut(cut[2]) /\ cut[2] \in Splits THEN tab[cut[2]] ELSE Hash(cut[2])
TransformCode(tab) == [t \in 0..(N - 1) |-> IF t \in Splits THEN Evaluate(tab, WindowOf(t)) ELSE 0]

Init ==
    /\ sv \in [Splits -> 0..V]
    /\ thr2 \in Thr2s /\ mdi \in Mdis
    /\ (SumOver([t \in Splits |-> sv[t] * ((t * t * 37 + t * 101 + 13) % 997)], Splits) + 331 * thr2 + 577 * mdi) % NSlices = Slice
    /\ scores = <<>> /\ i = 0 /\ start = -1 /\ ivs = <<>> /\ cps = <<>> /\ pc = "transform"

Transform ==
    /\ pc = "transform" /\ pc' = "where"
    /\ scores' = TransformCode(sv)
    /\ UNCHANGED <<sv, thr2, mdi, i, start, ivs, cps>>

\* for i, val in enumerate(indicator): ...
Where ==
    /\ pc = "where"
    /\ IF i < N
       THEN LET val == IF Exceed = "strict" THEN 2 * scores[i] > thr2 ELSE 2 * scores[i] >= thr2 IN
            /\ IF val /\ start = -1 THEN start' = i /\ ivs' = ivs
               ELSE IF ~val /\ start # -1 THEN start' = -1 /\ ivs' = Append(ivs, <<start, i>>)
               ELSE UNCHANGED <<start, ivs>>
            /\ i' = i + 1 /\ pc' = "where"
       ELSE \* if start is not None: intervals.append((start, len(indicator)))
            /\ ivs' = IF start # -1 THEN Append(ivs, <<start, N>>) ELSE ivs
            /\ start' = start /\ i' = 1 /\ pc' = "peaks"
    /\ UNCHANGED <<sv, thr2, mdi, scores, cps>>

\* for interval in detection_intervals: if end - start >= mdi: cpt = argmax(scores[start:end]) + start
Peaks ==
    /\ pc = "peaks"
    /\ IF i <= Len(ivs)
       THEN LET r == ivs[i] IN
            /\ IF r[2] - r[1] >= mdi
               THEN \E c \in {k \in r[1]..(r[2] - 1) : \A k2 \in r[1]..(r[2] - 1) : scores[k2] <= scores[k]} :
                        cps' = Append(cps, c)                     \* np.argmax: any maximiser admitted
               ELSE cps' = cps
            /\ i' = i + 1 /\ pc' = "peaks"
       ELSE pc' = "done" /\ UNCHANGED <<i, cps>>
    /\ UNCHANGED <<sv, thr2, mdi, scores, start, ivs>>

Next == Transform \/ Where \/ Peaks

(* -------------------------------- invariants --------------------------- *)
\* the score at every position is the two-sided score of the definition
ScoreIsDefinition == pc # "transform" => scores = ScoreDef(sv)
\* where() returns exactly the maximal runs, in order
WhereIsMaximalRuns == pc \in {"peaks", "done"} =>
    /\ Range(ivs) = Runs(Exceeds(scores, thr2))
    /\ \A k \in 1..(Len(ivs) - 1) : ivs[k][2] < ivs[k + 1][1]
\* scan invariant of the automaton: intervals found so far are the maximal runs closed before i
WhereScan == (pc = "where" /\ i <= N) =>
    LET ex == Exceeds(scores, thr2) IN
    /\ Range(ivs) = {r \in Runs(ex) : r[2] < i}
    /\ (start # -1) <=> (i > 0 /\ ex[i - 1])
    /\ (start # -1 => /\ \A k \in start..(i - 1) : ex[k]
                      /\ (start = 0 \/ ~ex[start - 1]))
\* the reported changepoints are the peaks of the qualifying runs
PeakOfRun == pc = "done" =>
    /\ PeaksAdmit(scores, thr2, mdi, Range(cps)) /\ IsStrictlyIncreasing(cps)
    /\ \A k \in 1..Len(cps) : cps[k] >= B /\ cps[k] <= N - B          \* C04 for the moving window
\* time reversal: scores map to n - t, and so do the changepoints when run maxima are unique
Rev(tab) == [t \in Splits |-> tab[N - t]]
Reversal == pc = "done" =>
    /\ \A t \in 1..(N - 1) : TransformCode(Rev(sv))[t] = scores[N - t]
    /\ Decisive(ScoreDef(sv), thr2, mdi) =>
         LET a == CHOOSE x \in AdmittedSets(ScoreDef(Rev(sv)), thr2, mdi) : TRUE
         IN  \* the exceedance pattern at position 0 has no mirror image (score 0 there): only runs
             \* inside 1..N-1 are mirrored, which is all of them as thresholds are >= 0
             a = {N - c : c \in Range(cps)}

(* -------------------------------- emission ----------------------------- *)
CaseRecord ==
    [n |-> N, b |-> B, thr2 |-> thr2, mdi |-> mdi,
     sv |-> [t \in 1..(N - 1) |-> IF t \in Splits THEN sv[t] ELSE 0],
     scores |-> [t \in 1..N |-> ScoreDef(sv)[t - 1]],
     admitted |-> {SortedSeq(a) : a \in AdmittedSets(ScoreDef(sv), thr2, mdi)},
     runs |-> [k \in 1..Len(ivs) |-> ivs[k]],
     cps |-> cps]
EmitDone == (Emit /\ pc = "done") => PrintT(<<"CASE", ToJson(CaseRecord)>>)
=============================================================================
