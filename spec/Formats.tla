------------------------------- MODULE Formats ------------------------------
(***************************************************************************)
(* C05 (dense <-> sparse conversions) and the well-formedness predicates  *)
(* of C04.                                                                 *)
(*                                                                         *)
(* PROPERTY LAYER: S2DChange / S2DAnom / S2DSubset say which label every  *)
(* integer POSITION gets; index labels never occur in them.  RoundTrip    *)
(* says converting back reproduces the sparse output.                      *)
(* IMPLEMENTATION LAYER: the converters as the code computes them         *)
(* (slice assignment in a loop, interval look-up, run detection on the    *)
(* positions with positive label, first/last row per label), driven by a  *)
(* small state machine  input -> dense -> back.                            *)
(*                                                                         *)
(* Lookup = "position" (repaired) | "label" (pinned tree: the collective  *)
(* converter looked index LABELS up in the position intervals and the     *)
(* change converter returned index labels; negative configuration).       *)
(* Split  = "gap_or_label" (repaired) | "gap" (pinned: adjacent anomalies *)
(* merged; negative configuration).                                        *)
(***************************************************************************)
EXTENDS FormatsDefs, TLC, Json

CONSTANTS NMax, PMax, Lookup, Split, Emit

(* ============================ state machine ============================ *)
VARIABLES kind, n, p, y, idxk, dense, back, stage
vars == <<kind, n, p, y, idxk, dense, back, stage>>

IdxKinds == {"default", "offset", "step", "opaque"}
IdxOf(k, nn) == [i \in 0..(nn - 1) |-> IF k = "default" THEN i ELSE IF k = "offset" THEN i + 2
                                       ELSE IF k = "step" THEN 2 * i ELSE 1000 + i]

\* all valid sparse outputs: sets of pairwise disjoint non-empty intervals, labelled in order
RECURSIVE IvSets(_)
IvSets(nn) == IF nn = 0 THEN {{}}
              ELSE IvSets(nn - 1) \cup UNION {{A \cup {<<s, nn>>} : A \in IvSets(s)} : s \in 0..(nn - 1)}
Labelled(A) == {[s |-> a[1], e |-> a[2], label |-> Cardinality({b \in A : b[1] <= a[1]})] : a \in A}
AnomOutputs(nn) == {Labelled(A) : A \in IvSets(nn)}
RECURSIVE WithCols(_, _)
WithCols(rows, pp) ==
    IF rows = {} THEN {{}}
    ELSE LET r == CHOOSE x \in rows : TRUE IN
         UNION {{rest \cup {[s |-> r.s, e |-> r.e, label |-> r.label, cols |-> c]} : rest \in WithCols(rows \ {r}, pp)}
                 : c \in (SUBSET (0..(pp - 1))) \ {{}}}

Init ==
    /\ n \in 1..NMax /\ idxk \in IdxKinds
    /\ \/ kind = "change" /\ p = 1 /\ y \in SUBSET (1..(n - 1))
       \/ kind = "anomaly" /\ p = 1 /\ y \in AnomOutputs(n)
       \/ kind = "subset" /\ p \in 1..PMax /\ n <= NMax - 1 /\ y \in UNION {WithCols(r, p) : r \in AnomOutputs(n)}
    /\ dense = <<>> /\ back = {} /\ stage = "input"

ToDense ==
    /\ stage = "input" /\ stage' = "dense"
    /\ dense' = IF kind = "change" THEN S2DChangeCode(y, n)
                ELSE IF kind = "anomaly" THEN S2DAnomCode(y, n, IdxOf(idxk, n), Lookup)
                ELSE S2DSubsetCode(y, n, p)
    /\ UNCHANGED <<kind, n, p, y, idxk, back>>

ToSparse ==
    /\ stage = "dense" /\ stage' = "back"
    /\ back' = IF kind = "change" THEN D2SChangeCode(dense, n, IdxOf(idxk, n), Lookup)
               ELSE IF kind = "anomaly" THEN D2SAnomCode(dense, n, Split)
               ELSE D2SSubsetCode(dense, n, p)
    /\ UNCHANGED <<kind, n, p, y, idxk, dense>>

Next == ToDense \/ ToSparse

(* =============================== invariants ============================ *)
\* position i gets the segment number / the covering anomaly's label / 0, whatever the index
LabelAtPosition == stage \in {"dense", "back"} =>
    dense = IF kind = "change" THEN S2DChange(y, n)
            ELSE IF kind = "anomaly" THEN S2DAnom(y, n) ELSE S2DSubset(y, n, p)
\* converting back reproduces the sparse output (adjacent, length-1 and end-touching events included)
RoundTrip == stage = "back" => back = y
\* the code's inverses are the property layer's inverses on every dense labelling reached
InverseIsDefinition == stage = "back" =>
    IF kind = "change" THEN (Lookup = "position" => back = D2SChange(dense, n))
    ELSE IF kind = "anomaly" THEN (Split = "gap_or_label" => back = D2SAnom(dense, n))
    ELSE TRUE
InputsValid == kind = "anomaly" => WFAnomRows(y, n)

(* ================================ emission ============================= *)
RowsJson(rows) == [k \in 1..Cardinality(rows) |->
                     LET r == CHOOSE x \in rows : x.label = k IN
                     IF kind = "subset" THEN <<r.s, r.e, SortedSeq(r.cols)>> ELSE <<r.s, r.e>>]
EmitCase == (Emit /\ stage = "back" /\ idxk = "default") =>
    PrintT(<<"CASE", ToJson([kind |-> kind, n |-> n, p |-> p,
                             y |-> IF kind = "change" THEN SortedSeq(y) ELSE RowsJson(y),
                             dense |-> IF kind = "subset" THEN [i \in 1..n |-> [j \in 1..p |-> dense[i - 1][j - 1]]]
                                       ELSE [i \in 1..n |-> dense[i - 1]]])>>)
=============================================================================
