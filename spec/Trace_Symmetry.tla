---------------------------- MODULE Trace_Symmetry ---------------------------
(***************************************************************************)
(* Stage C for C12: pairs of runs on X and on a transformed X (column     *)
(* permutation, per-column shift, positive scale, time reversal) against  *)
(* the relation the symmetry prescribes.  The exact statements on the     *)
(* sufficient statistics are Costs.tla's invariant Symmetries; here the   *)
(* recorded (quantised) outputs of scorers and detectors are related.     *)
(* record kinds:                                                           *)
(*  "values"   a, b : lists of rows of integers; perm (1-based: column j  *)
(*             of b is column perm[j] of a), rowmap (row i of b is row    *)
(*             rowmap[i] of a), tol                                        *)
(*  "events"   a, b : discrete outputs as lists (changepoints, or         *)
(*             <<s, e>> pairs, or <<s, e, cols>>), kind, n, perm, reverse, *)
(*             tie (the harness found the two runs' scores equal up to    *)
(*             rounding but a decision within rounding of a tie)          *)
(***************************************************************************)
EXTENDS Common, TLC, Json, IOUtils

Cases == JsonDeserialize(IOEnv.TRACE_FILE)
VARIABLES tid, verdict

ValuesVerdict(c) ==
    IF Len(c.a) # Len(c.b) THEN "fail:different_number_of_rows"
    ELSE IF \E i \in 1..Len(c.b) : Len(c.b[i]) # Len(c.perm) THEN "fail:different_number_of_columns"
    ELSE IF \E i \in 1..Len(c.b) : \E j \in 1..Len(c.perm) : Abs(c.b[i][j] - c.a[c.rowmap[i]][c.perm[j]]) > c.tol
      THEN "fail:" \o c.what \o "_values_do_not_follow_the_symmetry"
    ELSE "ok"

MapEvent(c, ev) ==
    IF c.kind = "change" THEN (IF c.reverse THEN c.n - ev ELSE ev)
    ELSE IF c.kind = "anomaly" THEN (IF c.reverse THEN <<c.n - ev[2], c.n - ev[1]>> ELSE <<ev[1], ev[2]>>)
    ELSE <<ev[1], ev[2], {c.perm[ev[3][k]] : k \in 1..Len(ev[3])}>>          \* subset: columns mapped back
Norm(c, ev) == IF c.kind = "subset" THEN <<ev[1], ev[2], Range(ev[3])>> ELSE IF c.kind = "anomaly" THEN <<ev[1], ev[2]>> ELSE ev
EventsVerdict(c) ==
    IF c.tie THEN "skip:decision_within_rounding_of_a_tie"
    ELSE IF {MapEvent(c, c.b[i]) : i \in 1..Len(c.b)} = {Norm(c, c.a[i]) : i \in 1..Len(c.a)} THEN "ok"
    ELSE "fail:" \o c.what \o "_detections_do_not_follow_the_symmetry"

Verdict(c) == IF c.rec = "values" THEN ValuesVerdict(c) ELSE EventsVerdict(c)

Init == tid = 0 /\ verdict = "start"
Next == /\ tid < Len(Cases)
        /\ tid' = tid + 1
        /\ verdict' = Verdict(Cases[tid + 1])
        /\ PrintT(<<"VERDICT", Cases[tid + 1].id, verdict'>>)
=============================================================================
