----------------------------- MODULE SeededBinseg ----------------------------
(***************************************************************************)
(* IMPLEMENTATION LAYER for C07 and C09: greedy_changepoint_selection /   *)
(* greedy_anomaly_selection -- the `scores` copy that is zeroed, one      *)
(* action per turn of the while loop -- checked against the property      *)
(* layer GreedyDefs.tla for every small candidate set.                    *)
(*                                                                         *)
(* Mode = "contains": picks are split points with M samples on both sides *)
(*        (seeded binary segmentation, C07);                               *)
(* Mode = "overlaps": picks are inner intervals from Inner(s, e, M)       *)
(*        (circular binary segmentation, C09); a candidate without inner  *)
(*        interval keeps score 0 and pick <<0, 0>>.                       *)
(* RemoveTest = "code" | "strict" (cpt > starts: mutant) | "touch"        *)
(*        (overlap test with >=: mutant).  Thr2 = 2 * threshold: odd      *)
(*        values never tie with a score, even values do; "exceeds" is     *)
(*        strict.  Exceed = "strict" (the code) | "weak" (>=: mutant; with *)
(*        threshold 0 the loop no longer terminates).                      *)
(***************************************************************************)
EXTENDS GreedyDefs, TLC, Json

CONSTANTS N, M, L, K, V, Thr2s, Mode, RemoveTest, Exceed, Emit, NSlices, Slice

VARIABLES iv, sc, pk, thr2, work, picks, pc
vars == <<iv, sc, pk, thr2, work, picks, pc>>

Cands == {c \in Intervals(N) : SeededAdmissible(c, N, M, L)}
PicksOf(c) == IF Mode = "contains" THEN (c[1] + M)..(c[2] - M) ELSE Inner(c[1], c[2], M)

\* make_anomaly_intervals: the double loop of the code
InnerLoop(s, e, m) ==
    UNION {{<<i, j>> : j \in {x \in (i + m)..(e - 1) : (e - x) + (i - s) >= m}} : i \in (s + 1)..(e - m + 1)}

Code(c) == 100 * c[1] + c[2]
NoPick == IF Mode = "contains" THEN -1 ELSE <<0, 0>>
Init ==
    /\ \E S \in SUBSET Cands :
          /\ Cardinality(S) >= 1 /\ Cardinality(S) <= K
          /\ iv = [i \in 1..Cardinality(S) |-> LET x == SortedSeq({Code(c) : c \in S})[i] IN <<x \div 100, x % 100>>]
    /\ sc \in [1..Len(iv) -> 0..V]
    /\ pk \in [1..Len(iv) -> UNION {PicksOf(iv[i]) : i \in 1..Len(iv)} \cup {NoPick}]
    /\ \A i \in 1..Len(iv) : IF PicksOf(iv[i]) = {} THEN pk[i] = NoPick /\ sc[i] = 0
                                                     ELSE pk[i] \in PicksOf(iv[i])
    /\ thr2 \in Thr2s
    /\ (SumOver([i \in 1..Len(iv) |-> sc[i] * (37 * i * i + 101) + 13 * Code(iv[i]) * i], 1..Len(iv)) + 331 * thr2) % NSlices = Slice
    /\ work = sc /\ picks = <<>> /\ pc = "loop"

HitsCode(c, p) ==
    IF Mode = "contains"
    THEN (IF RemoveTest = "strict" THEN p > c[1] ELSE p >= c[1]) /\ p <= c[2] - 1
    ELSE IF RemoveTest = "touch" THEN p[2] >= c[1] /\ p[1] <= c[2] ELSE p[2] > c[1] /\ p[1] < c[2]

\* while np.any(scores > threshold): argmax; pick; scores[hit] = 0.0
Loop ==
    /\ pc = "loop"
    /\ IF \E i \in 1..Len(iv) : (IF Exceed = "strict" THEN 2 * work[i] > thr2 ELSE 2 * work[i] >= thr2)
       THEN \E i \in {j \in 1..Len(iv) : \A k \in 1..Len(iv) : work[k] <= work[j]} :   \* argmax: any maximiser
               /\ picks' = Append(picks, pk[i])
               /\ work' = [j \in 1..Len(iv) |-> IF HitsCode(iv[j], pk[i]) THEN 0 ELSE work[j]]
               /\ pc' = IF Len(picks) > Len(iv) + 1 THEN "diverged" ELSE "loop"
       ELSE pc' = "done" /\ UNCHANGED <<work, picks>>
    /\ UNCHANGED <<iv, sc, pk, thr2>>

Next == Loop

(* -------------------------------- invariants --------------------------- *)
Sc2 == [i \in 1..Len(iv) |-> 2 * sc[i]]
\* the loop produces exactly a result of the greedy definition, for every tie resolution
GreedyCharacterisation == pc = "done" => GreedyAdmits(iv, Sc2, pk, thr2, 0, Mode, Range(picks))
\* the guided membership test used by trace validation is exactly membership in GreedyResults
GuidedIsMembership == (pc = "loop" /\ picks = <<>>) =>
    \A out \in SUBSET {pk[i] : i \in 1..Len(iv)} :
        GreedyAdmits(iv, Sc2, pk, thr2, 0, Mode, out) <=> out \in GreedyResults(iv, Sc2, pk, thr2, 0, Mode, {}, {})
Terminates == pc # "diverged"
NoDuplicates == pc = "done" => Len(picks) = Cardinality(Range(picks))
\* every pick is supported by a candidate scoring above the threshold that no earlier pick hit
Supported == pc = "done" => \A k \in 1..Len(picks) : \E i \in 1..Len(iv) :
                 /\ pk[i] = picks[k] /\ 2 * sc[i] > thr2
                 /\ \A k2 \in 1..(k - 1) : ~Hits(Mode, iv[i], picks[k2])
\* no above-threshold candidate is left without a pick hitting it
NothingLeft == pc = "done" => \A i \in 1..Len(iv) : 2 * sc[i] > thr2 => \E k \in 1..Len(picks) : Hits(Mode, iv[i], picks[k])
\* C04: changepoints at least M apart and M from both ends / anomalies disjoint, strictly inside
Spacing == pc = "done" =>
    IF Mode = "contains"
    THEN \A a, b \in Range(picks) \cup {0, N} : a # b => Abs(a - b) >= M
    ELSE /\ \A a, b \in Range(picks) : a # b => (a[2] <= b[1] \/ b[2] <= a[1])
         /\ \A a \in Range(picks) : a[1] >= 1 /\ a[2] <= N - 1 /\ a[2] - a[1] >= M
\* raising the threshold can only remove picks: with the code's tie rule the picks for the higher
\* threshold are a prefix of those for the lower one
ThresholdMonotone == pc = "loop" /\ picks = <<>> =>
    \A a, b \in Thr2s : a < b => IsPrefixOf(GreedySeq(iv, Sc2, pk, b, Mode, {}), GreedySeq(iv, Sc2, pk, a, Mode, {}))
\* the double loop of make_anomaly_intervals is the set Inner (C09)
InnerIsLoop == \A c \in Cands : InnerLoop(c[1], c[2], M) = Inner(c[1], c[2], M)
EmptyInnerScoresZero == Mode = "overlaps" =>
    \A i \in 1..Len(iv) : Inner(iv[i][1], iv[i][2], M) = {} => sc[i] = 0 /\ (pc = "done" => pk[i] \notin Range(picks))

(* --------------------------------- emission ---------------------------- *)
CaseRecord ==
    [n |-> N, m |-> M, mode |-> Mode, thr2 |-> thr2,
     starts |-> [i \in 1..Len(iv) |-> iv[i][1]], ends |-> [i \in 1..Len(iv) |-> iv[i][2]],
     scores |-> sc, picks |-> pk,
     admitted |-> GreedyResults(iv, Sc2, pk, thr2, 0, Mode, {}, {})]
EmitDone == (Emit /\ pc = "done") => PrintT(<<"CASE", ToJson(CaseRecord)>>)
=============================================================================
