-------------------------------- MODULE Cuts --------------------------------
(***************************************************************************)
(* C13: evaluate = Check ; Kernel.                                         *)
(*                                                                         *)
(* PROPERTY LAYER: Accepts(kind, cut, n, ms) -- the cuts a scorer must    *)
(* score; everything else must be rejected with ValueError.               *)
(* IMPLEMENTATION LAYER: the check chain of BaseIntervalScorer.evaluate   *)
(* (as_2d_array, check_cuts_array, LocalAnomalyScore._check_cuts, the     *)
(* bounds test) followed by a kernel that reads arrays with PYTHON        *)
(* INDEXING SEMANTICS: a negative index wraps around silently, an index   *)
(* beyond the array raises IndexError, a slice is silently truncated.     *)
(* This is what lets the model say what "silently" means.                 *)
(*                                                                         *)
(* kind = number of cut entries: 2 interval (costs, savings), 3 change    *)
(* score, 4 local anomaly score.  ms = the scorer's min_size.              *)
(* Kernel \in {"prefix", "slice"}: prefix-sum kernels index sums[0..n];   *)
(* slice kernels take X[s:e] (GaussianCovCost, LocalAnomalyScore's        *)
(* surroundings).                                                          *)
(* CheckMode = "bounds" (repaired) | "nobounds" (pinned tree; negative    *)
(* configuration: must violate NoSilentWrap).                              *)
(***************************************************************************)
EXTENDS Common, TLC, Json

CONSTANTS NMax,        \* data lengths 3..NMax
          Margin,      \* cut entries range over -Margin .. n+Margin
          CheckMode, Emit

VARIABLES n, kind, ms, kernel, shape, cut, stage, wrapped, truncated
vars == <<n, kind, ms, kernel, shape, cut, stage, wrapped, truncated>>

Shapes == {"ok", "float", "narrow", "wide", "3d"}

(* ------------------------------ property layer ------------------------- *)
InData(c, nn) == \A i \in 1..Len(c) : c[i] >= 0 /\ c[i] <= nn
AcceptsInterval(c, nn, m) == Len(c) = 2 /\ InData(c, nn) /\ c[2] - c[1] >= m
AcceptsChange(c, nn, m)   == Len(c) = 3 /\ InData(c, nn) /\ c[2] - c[1] >= m /\ c[3] - c[2] >= m
AcceptsLocal(c, nn, m)    == /\ Len(c) = 4 /\ InData(c, nn)
                             /\ c[1] < c[2] /\ c[2] < c[3] /\ c[3] < c[4]
                             /\ c[3] - c[2] >= m
                             /\ (c[2] - c[1]) + (c[4] - c[3]) >= m
Accepts(k, c, nn, m, sh) ==
    /\ sh = "ok"
    /\ IF k = 2 THEN AcceptsInterval(c, nn, m)
       ELSE IF k = 3 THEN AcceptsChange(c, nn, m) ELSE AcceptsLocal(c, nn, m)

(* --------------------------- implementation layer ---------------------- *)
\* check_cuts_array(cuts, min_size, last_dim_size): np.diff(cuts) >= min_size
DiffsAtLeast(c, m) == \A i \in 1..(Len(c) - 1) : c[i + 1] - c[i] >= m
CheckPasses ==
    /\ shape = "ok"                              \* ndim, integer dtype, width
    /\ IF kind = 4
       THEN /\ DiffsAtLeast(cut, 1)              \* LocalAnomalyScore: default min_size = 1, then
            /\ cut[3] - cut[2] >= ms             \* inner size and pooled surrounding size
            /\ (cut[2] - cut[1]) + (cut[4] - cut[3]) >= ms
       ELSE DiffsAtLeast(cut, ms)
    /\ (CheckMode = "bounds" => (cut[1] >= 0 /\ cut[Len(cut)] <= n))

Init ==
    /\ n \in 3..NMax
    /\ kind \in {2, 3, 4}
    /\ ms \in 1..3
    /\ kernel \in {"prefix", "slice"}
    /\ shape \in Shapes
    /\ cut \in [1..kind -> (0 - Margin)..(n + Margin)]
    /\ (shape # "ok" => \A i \in 1..kind : cut[i] = i)    \* one representative per malformed shape
    /\ stage = "input" /\ wrapped = FALSE /\ truncated = FALSE

Check ==
    /\ stage = "input"
    /\ stage' = IF CheckPasses THEN "checked" ELSE "rejected"   \* rejected = ValueError
    /\ UNCHANGED <<n, kind, ms, kernel, shape, cut, wrapped, truncated>>

\* Python semantics of sums[i] on an array of n+1 rows, and of X[a:b] on n rows
IdxWraps(i)      == i < 0 /\ i >= 0 - (n + 1)
IdxRaises(i)     == i > n \/ i < 0 - (n + 1)
SliceWraps(a, b) == a < 0 \/ b < 0
SliceTruncs(a, b) == a > n \/ b > n
Kernel ==
    /\ stage = "checked"
    /\ IF kernel = "prefix"
       THEN /\ stage' = IF \E i \in 1..kind : IdxRaises(cut[i]) THEN "indexerror" ELSE "evaluated"
            /\ wrapped' = \E i \in 1..kind : IdxWraps(cut[i])
            /\ truncated' = FALSE
       ELSE /\ stage' = "evaluated"
            /\ wrapped' = \E i \in 1..(kind - 1) : SliceWraps(cut[i], cut[i + 1])
            /\ truncated' = \E i \in 1..(kind - 1) : SliceTruncs(cut[i], cut[i + 1])
    /\ UNCHANGED <<n, kind, ms, kernel, shape, cut>>

Next == Check \/ Kernel

(* ------------------------------- invariants ---------------------------- *)
\* an accepted cut never makes a kernel wrap around or truncate
NoSilentWrap     == stage = "evaluated" => ~wrapped /\ ~truncated
\* ValueError is the only error: no IndexError escapes from a kernel
OnlyValueError   == stage # "indexerror"
\* Check rejects exactly the complement of the admissible set
RejectIffInvalid == /\ stage = "rejected" => ~Accepts(kind, cut, n, ms, shape)
                    /\ stage \in {"checked", "evaluated"} => Accepts(kind, cut, n, ms, shape)

(* -------------------------------- emission ----------------------------- *)
\* one line per (n, kind, ms): the admitted cuts; everything else in the box must raise ValueError
Box(nn, k) == [1..k -> (0 - Margin)..(nn + Margin)]
EmitAll ==
    (Emit /\ stage = "input" /\ shape = "ok" /\ kernel = "prefix" /\ \A i \in 1..kind : cut[i] = 0 - Margin) =>
        PrintT(<<"CASE", ToJson([n |-> n, kind |-> kind, ms |-> ms, margin |-> Margin,
                                 accepted |-> {c \in Box(n, kind) : Accepts(kind, c, n, ms, "ok")}])>>)
=============================================================================
