-------------------------------- MODULE Cuts --------------------------------
(***************************************************************************)
(* C13: evaluate = Check ; Kernel.                                         *)
(*                                                                         *)
(* PROPERTY LAYER: Accepts(kind, cut, n, ms) -- the cuts a scorer must    *)
(* score; everything else must be rejected with ValueError.               *)
(* IMPLEMENTATION LAYER: the check chain of BaseIntervalScorer.evaluate   *)
(* (as_2d_array, check_cuts_array, LocalAnomalyScore._check_cuts, the     *)
(* bounds test) followed by a kernel that reads arrays with PYTHON        *)
(* INDEXING SEMANTICS: a negative index wraps around silently, an index   *)
(* beyond the array raises IndexError, a slice is silently truncated.     *)
(* This is what lets the model say what "silently" means.                 *)
(*                                                                         *)
(* kind = number of cut entries: 2 interval (costs, savings), 3 change    *)
(* score, 4 local anomaly score.  ms = the scorer's min_size.              *)
(* Kernel \in {"prefix", "slice"}: prefix-sum kernels index sums[0..n];   *)
(* slice kernels take X[s:e] (GaussianCovCost, LocalAnomalyScore's        *)
(* surroundings).                                                          *)
(* The array passed in is the row under test alone or next to admissible   *)
(* rows (pos), as a signed or an unsigned integer array (dtype).           *)
(* CheckMode / DiffMode select the repaired code or known-bad variants     *)
(* (negative configurations, must violate the invariants).                 *)
(***************************************************************************)
EXTENDS Common, TLC, Json

CONSTANTS NMax,        \* data lengths 3..NMax
          Margin,      \* cut entries range over -Margin .. n+Margin
          CheckMode,   \* "bounds" | "nobounds" (pinned tree) | "firstlast" (bounds of first/last ROW only)
          DiffMode,    \* "exact" | "wrapping" (np.diff on an unsigned array wraps around; pinned tree)
          Emit

VARIABLES n, kind, ms, kernel, shape, dtype, cut, pos, stage, wrapped, truncated
vars == <<n, kind, ms, kernel, shape, dtype, cut, pos, stage, wrapped, truncated>>

Shapes == {"ok", "float", "narrow", "wide", "3d"}

(* ------------------------------ property layer ------------------------- *)
InData(c, nn) == \A i \in 1..Len(c) : c[i] >= 0 /\ c[i] <= nn
AcceptsInterval(c, nn, m) == Len(c) = 2 /\ InData(c, nn) /\ c[2] - c[1] >= m
AcceptsChange(c, nn, m)   == Len(c) = 3 /\ InData(c, nn) /\ c[2] - c[1] >= m /\ c[3] - c[2] >= m
AcceptsLocal(c, nn, m)    == /\ Len(c) = 4 /\ InData(c, nn)
                             /\ c[1] < c[2] /\ c[2] < c[3] /\ c[3] < c[4]
                             /\ c[3] - c[2] >= m
                             /\ (c[2] - c[1]) + (c[4] - c[3]) >= m
AcceptsRow(k, c, nn, m) ==
    IF k = 2 THEN AcceptsInterval(c, nn, m)
    ELSE IF k = 3 THEN AcceptsChange(c, nn, m) ELSE AcceptsLocal(c, nn, m)
\* a cuts array is admissible iff it is a well-shaped integer array and EVERY row is admissible
Accepts(k, rows, nn, m, sh) == sh = "ok" /\ \A r \in 1..Len(rows) : AcceptsRow(k, rows[r], nn, m)

(* --------------------------- implementation layer ---------------------- *)
Box(nn, k) == [1..k -> (0 - Margin)..(nn + Margin)]
\* some admissible row to put next to the row under test (none exists for short data / large ms)
FillerRow(nn, k, m) == IF k = 2 THEN <<0, nn>> ELSE IF k = 3 THEN <<0, m, nn>> ELSE <<0, 1, 1 + m, nn>>
HasFiller(nn, k, m) == AcceptsRow(k, FillerRow(nn, k, m), nn, m)
Filler(nn, k, m)    == FillerRow(nn, k, m)
\* the array passed to evaluate: the row under test alone, or among admissible rows
Rows == LET f == Filler(n, kind, ms) IN
        IF pos = "only" THEN <<cut>> ELSE IF pos = "first" THEN <<cut, f>>
        ELSE IF pos = "last" THEN <<f, cut>> ELSE <<f, cut, f>>

\* np.diff(cuts, axis=1) >= min_size; on an unsigned array a negative difference wraps around
DiffGE(a, b, m) == IF b - a >= 0 THEN b - a >= m ELSE (DiffMode = "wrapping" /\ dtype = "unsigned")
DiffsAtLeast(c, m) == \A i \in 1..(Len(c) - 1) : DiffGE(c[i], c[i + 1], m)
RowPasses(c) ==
    IF kind = 4
    THEN /\ DiffsAtLeast(c, 1)                  \* LocalAnomalyScore: default min_size = 1, then
         /\ DiffGE(c[2], c[3], ms)              \* inner size and pooled surrounding size
         /\ (c[2] - c[1]) + (c[4] - c[3]) >= ms
    ELSE DiffsAtLeast(c, ms)
AllEntries(rows) == {rows[r][i] : r \in 1..Len(rows), i \in 1..kind}
CheckPasses ==
    LET rows == Rows IN
    /\ shape = "ok"                              \* ndim, integer dtype, width
    /\ \A r \in 1..Len(rows) : RowPasses(rows[r])
    /\ (CheckMode = "bounds" => (Min(AllEntries(rows)) >= 0 /\ Max(AllEntries(rows)) <= n))
    /\ (CheckMode = "firstlast" => (Min(Range(rows[1])) >= 0 /\ Max(Range(rows[Len(rows)])) <= n))

Init ==
    /\ n \in 3..NMax
    /\ kind \in {2, 3, 4}
    /\ ms \in 1..3
    /\ kernel \in {"prefix", "slice"}
    /\ shape \in Shapes
    /\ dtype \in {"signed", "unsigned"}
    /\ cut \in Box(n, kind)
    /\ (dtype = "unsigned" => \A i \in 1..kind : cut[i] >= 0)
    /\ (shape # "ok" => dtype = "signed" /\ \A i \in 1..kind : cut[i] = i)   \* one representative per malformed shape
    /\ pos \in IF HasFiller(n, kind, ms) /\ shape = "ok" THEN {"only", "first", "middle", "last"} ELSE {"only"}
    /\ stage = "input" /\ wrapped = FALSE /\ truncated = FALSE

Check ==
    /\ stage = "input"
    /\ stage' = IF CheckPasses THEN "checked" ELSE "rejected"   \* rejected = ValueError
    /\ UNCHANGED <<n, kind, ms, kernel, shape, dtype, cut, pos, wrapped, truncated>>

\* Python semantics of sums[i] on an array of n+1 rows, and of X[a:b] on n rows
IdxWraps(i)      == i < 0 /\ i >= 0 - (n + 1)
IdxRaises(i)     == i > n \/ i < 0 - (n + 1)
SliceWraps(a, b) == a < 0 \/ b < 0
SliceTruncs(a, b) == a > n \/ b > n
Kernel ==
    /\ stage = "checked"
    /\ LET rows == Rows IN
       IF kernel = "prefix"
       THEN /\ stage' = IF \E x \in AllEntries(rows) : IdxRaises(x) THEN "indexerror" ELSE "evaluated"
            /\ wrapped' = \E x \in AllEntries(rows) : IdxWraps(x)
            /\ truncated' = FALSE
       ELSE /\ stage' = "evaluated"
            /\ wrapped' = \E r \in 1..Len(rows) : \E i \in 1..(kind - 1) : SliceWraps(rows[r][i], rows[r][i + 1])
            /\ truncated' = \E r \in 1..Len(rows) : \E i \in 1..(kind - 1) : SliceTruncs(rows[r][i], rows[r][i + 1])
    /\ UNCHANGED <<n, kind, ms, kernel, shape, dtype, cut, pos>>

Next == Check \/ Kernel

(* ------------------------------- invariants ---------------------------- *)
\* an accepted cut never makes a kernel wrap around or truncate
NoSilentWrap     == stage = "evaluated" => ~wrapped /\ ~truncated
\* ValueError is the only error: no IndexError escapes from a kernel
OnlyValueError   == stage # "indexerror"
\* Check rejects exactly the complement of the admissible set
RejectIffInvalid == /\ stage = "rejected" => ~Accepts(kind, Rows, n, ms, shape)
                    /\ stage \in {"checked", "evaluated"} => Accepts(kind, Rows, n, ms, shape)

(* -------------------------------- emission ----------------------------- *)
\* one line per (n, kind, ms): the admitted rows and the filler row; every other row of the box,
\* alone or next to admissible rows, signed or unsigned, must raise ValueError
EmitAll ==
    (Emit /\ stage = "input" /\ shape = "ok" /\ kernel = "prefix" /\ dtype = "signed" /\ pos = "only"
          /\ \A i \in 1..kind : cut[i] = 0 - Margin) =>
        PrintT(<<"CASE", ToJson([n |-> n, kind |-> kind, ms |-> ms, margin |-> Margin,
                                 filler |-> IF HasFiller(n, kind, ms) THEN Filler(n, kind, ms) ELSE <<>>,
                                 accepted |-> {c \in Box(n, kind) : AcceptsRow(kind, c, n, ms)}])>>)
=============================================================================
