--------------------------- MODULE Representations ---------------------------
(***************************************************************************)
(* C11: outputs do not depend on how the same numbers are passed in.      *)
(*                                                                         *)
(* A data argument is a value matrix (abstract) in some REPRESENTATION:   *)
(*   container : "ndarray2d" | "ndarray1d" (p = 1) | "series" (p = 1) |   *)
(*               "frame"                                                   *)
(*   dtype     : "float64" | "int64" | "int32" | "int16" | "int8"          *)
(*   index     : "range0" | "offset" | "step" | "datetime" | "period"     *)
(*               (pandas containers only; arrays have no index)           *)
(*   columns   : "default" | "strings"  (frames only)                      *)
(* The entry points convert it as the code does (check_series, then       *)
(* check_data: ndarray -> DataFrame with a default index, Series ->       *)
(* to_frame; as_2d_array for scorers; transform wraps X in a DataFrame to *)
(* obtain index and columns).  The model tracks what each conversion      *)
(* preserves: the value matrix, the index (labels by position) and the    *)
(* column count.  Results are position based, so:                          *)
(*   ValuesPreserved : the values the algorithm sees are the abstract     *)
(*                     matrix, for every representation;                   *)
(*   IndexCarried    : dense outputs carry the input's own index, arrays  *)
(*                     the default range index of the piece passed in.    *)
(* Conv = "code" | "reset_index" (values taken through reset_index() --   *)
(* fine) | "label_lookup" (positions looked up by index label: the pinned *)
(* collective sparse_to_dense; negative configuration) | "astype_int"     *)
(* (input cast to int: negative configuration for dyadic data).           *)
(***************************************************************************)
EXTENDS Common, TLC, Json

CONSTANTS N, Conv, Emit

Containers == {"ndarray2d", "ndarray1d", "series", "frame"}
Dtypes     == {"float64", "int64", "int32", "int16", "int8"}
Narrow     == {"int32", "int16", "int8"}      \* squares of moderate values do not fit the dtype itself
Indexes    == {"range0", "offset", "step", "datetime", "period"}
Columns    == {"default", "strings"}
Detectors  == {"PELT", "MovingWindow", "SeededBinarySegmentation", "CAPA", "MVCAPA", "CircularBinarySegmentation",
               "StatThresholdAnomaliser"}
Entries    == {"fit", "update", "predict", "transform", "transform_scores"}

VARIABLES det, entry, cont, dtype, idx, cols, p, halves, seen, outIndex, pc
vars == <<det, entry, cont, dtype, idx, cols, p, halves, seen, outIndex, pc>>

\* the abstract value matrix: row i, column j holds 2*(i+1)+j halves (integers when `halves` is FALSE)
Value(i, j) == IF halves THEN 10 * (i + 1) + 5 * j ELSE 10 * (2 * (i + 1) + j)     \* in tenths
Labels(k) == [i \in 0..(N - 1) |-> IF k = "range0" THEN i ELSE IF k = "offset" THEN i + 5 ELSE IF k = "step" THEN 3 * i
                                   ELSE 1000 + i]                                    \* opaque labels for datetime / period
HasIndex(c) == c \in {"series", "frame"}

Init ==
    /\ det \in Detectors /\ entry \in Entries
    /\ cont \in Containers /\ dtype \in Dtypes /\ idx \in Indexes /\ cols \in Columns
    /\ p \in 1..2 /\ halves \in BOOLEAN
    /\ (cont \in {"ndarray1d", "series"} => p = 1)
    /\ (det = "StatThresholdAnomaliser" => p = 1)                 \* univariate by its own tag
    /\ (~HasIndex(cont) => idx = "range0") /\ (cont # "frame" => cols = "default")
    /\ (dtype # "float64" => ~halves)                             \* the same values must be representable
    /\ (dtype \in Narrow => idx \in {"range0", "datetime"} /\ cols = "default")   \* the width of the integers is orthogonal to labels
    /\ seen = <<>> /\ outIndex = <<>> /\ pc = "call"

\* what the algorithm sees after the conversions, and the index a dense output gets
Convert ==
    /\ pc = "call" /\ pc' = "done"
    /\ seen' = [i \in 0..(N - 1) |-> [j \in 0..(p - 1) |->
                  IF Conv = "astype_int" THEN 10 * (Value(i, j) \div 10) ELSE Value(i, j)]]
    /\ outIndex' = IF Conv = "label_lookup" /\ det \in {"CAPA", "CircularBinarySegmentation", "StatThresholdAnomaliser"}
                   THEN [i \in 0..(N - 1) |-> IF Labels(idx)[i] \in 0..(N - 1) THEN Labels(idx)[i] ELSE 0 - 1]   \* positions hit by labels
                   ELSE [i \in 0..(N - 1) |-> i]
    /\ UNCHANGED <<det, entry, cont, dtype, idx, cols, p, halves>>

Next == Convert

ValuesPreserved == pc = "done" => \A i \in 0..(N - 1) : \A j \in 0..(p - 1) : seen[i][j] = Value(i, j)
\* row i of a dense output describes position i and carries label Labels(idx)[i]
IndexCarried == pc = "done" => \A i \in 0..(N - 1) : outIndex[i] = i

EmitCase == (Emit /\ pc = "done") =>
    PrintT(<<"CASE", ToJson([det |-> det, entry |-> entry, cont |-> cont, dtype |-> dtype, idx |-> idx, cols |-> cols,
                             p |-> p, halves |-> halves])>>)
=============================================================================
