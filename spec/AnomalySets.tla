----------------------------- MODULE AnomalySets ----------------------------
(***************************************************************************)
(* PROPERTY LAYER for C03 / C16 (CAPA, MVCAPA).                            *)
(*                                                                         *)
(* Savings are tables S[<<s,e>>][j] (interval, component j \in 1..P);     *)
(* a penalty is a constant alpha plus a sequence betas of per-component   *)
(* terms.  An anomaly's penalised saving is the best, over NON-EMPTY sets *)
(* of components, of the summed savings minus alpha (once) minus the      *)
(* per-component terms of that many components.  Nothing here knows about *)
(* pruning, back-pointers or the three branches of penalise_savings.      *)
(***************************************************************************)
EXTENDS Common

Comp(P) == 1..P

SubsetValue(sv, alpha, betas, T) == SumOver(sv, T) - alpha - SumSeq(betas, Cardinality(T))
Pen(sv, alpha, betas, P) ==
    Max({SubsetValue(sv, alpha, betas, T) : T \in (SUBSET Comp(P)) \ {{}}})
BestSubsets(sv, alpha, betas, P) ==
    {T \in (SUBSET Comp(P)) \ {{}} : SubsetValue(sv, alpha, betas, T) = Pen(sv, alpha, betas, P)}

IsCollective(a, m, mx) == LenOf(a) >= m /\ LenOf(a) <= mx
IsPoint(a)             == LenOf(a) = 1
DisjointIv(a, b)       == a[2] <= b[1] \/ b[2] <= a[1]
Admissible(T, m, mx)   == {a \in Intervals(T) : IsCollective(a, m, mx) \/ IsPoint(a)}
ValidSets(T, m, mx)    == {A \in SUBSET Admissible(T, m, mx) : \A a, b \in A : a # b => DisjointIv(a, b)}

\* pen = [ca, cb, pa, pb]: collective alpha/betas, point alpha/betas.  With m >= 2 an interval of
\* length 1 can only be a point anomaly.
AnomValue(S, pen, P, a) == IF IsPoint(a) THEN Pen(S[a], pen.pa, pen.pb, P) ELSE Pen(S[a], pen.ca, pen.cb, P)
Value(S, pen, P, A)     == SumOver([a \in A |-> AnomValue(S, pen, P, a)], A)
OptSaving(S, pen, P, T, m, mx) == Max({Value(S, pen, P, A) : A \in ValidSets(T, m, mx)})
OptSets(S, pen, P, T, m, mx)   ==
    {A \in ValidSets(T, m, mx) : Value(S, pen, P, A) = OptSaving(S, pen, P, T, m, mx)}

\* Observable result admitted by the property (scores[T] for every prefix 1..n, anomaly set A).
CapaAdmits(S, pen, P, n, m, mx, scores, A) ==
    /\ \A T \in 1..n : scores[T] = OptSaving(S, pen, P, T, m, mx)
    /\ A \in ValidSets(n, m, mx)
    /\ Value(S, pen, P, A) = scores[n]

\* Dynamic-programming form of OptSaving (no pruning); TLC proves it equal to the set form on the
\* small constants (lemma RefIsOpt in Capa.tla) and trace validation uses it for larger n.
OptRef(S, pen, P, n, m, mx) ==
    LET f[T \in 0..n] ==
          IF T = 0 THEN 0
          ELSE Max({f[T - 1], f[T - 1] + Pen(S[<<T - 1, T>>], pen.pa, pen.pb, P)} \cup
                   {f[s] + Pen(S[<<s, T>>], pen.ca, pen.cb, P) :
                        s \in {x \in 0..(T - 1) : T - x >= m /\ T - x <= mx}})
    IN f

\* The same recursion built left to right as a sequence (entry T+1 = optimum of the prefix of length T), for long
\* series; lemma RefSeqIsRef (Capa.tla) ties it to OptRef on the small constants.
RECURSIVE OptRefSeqFrom(_, _, _, _, _, _, _)
OptRefSeqFrom(S, pen, P, n, m, mx, acc) ==
    LET T == Len(acc) IN
    IF T > n THEN acc
    ELSE OptRefSeqFrom(S, pen, P, n, m, mx,
            Append(acc, Max({acc[T], acc[T] + Pen(S[<<T - 1, T>>], pen.pa, pen.pb, P)} \cup
                            {acc[s + 1] + Pen(S[<<s, T>>], pen.ca, pen.cb, P) :
                                 s \in {x \in 0..(T - 1) : T - x >= m /\ T - x <= mx}})))
OptRefSeq(S, pen, P, n, m, mx) == OptRefSeqFrom(S, pen, P, n, m, mx, <<0>>)

\* The quantifier's side condition on user-defined savings.
SubAdditive(S, P, n) ==
    \A iv \in Intervals(n) : \A k \in (iv[1] + 1)..(iv[2] - 1) : \A j \in Comp(P) :
        S[iv][j] <= S[<<iv[1], k>>][j] + S[<<k, iv[2]>>][j]
NonNegative(S, P, n) == \A iv \in Intervals(n) : \A j \in Comp(P) : S[iv][j] >= 0

(* C16: admitted column lists for an anomaly with component savings sv under (alpha, betas):    *)
(* the k columns with the largest savings in decreasing order, k >= 1 maximising the cumulative *)
(* penalised saving; ties between equal savings may be ordered either way.                      *)
TopK(sv, T, P) == \A i \in T, j \in Comp(P) \ T : sv[i] >= sv[j]
ColsAdmit(sv, alpha, betas, P, cols) ==
    LET T == Range(cols) IN
    /\ Len(cols) >= 1 /\ Len(cols) = Cardinality(T) /\ T \subseteq Comp(P)
    /\ T \in BestSubsets(sv, alpha, betas, P)
    /\ TopK(sv, T, P)
    /\ \A i \in 1..(Len(cols) - 1) : sv[cols[i]] >= sv[cols[i + 1]]
=============================================================================
