----------------------------- MODULE Trace_Binseg ----------------------------
(***************************************************************************)
(* Stage C for C07 / C09: recorded runs of SeededBinarySegmentation and   *)
(* CircularBinarySegmentation against the property layer GreedyDefs.tla.  *)
(* record "run": mode, n, m, L, thr, tol,                                  *)
(*    table  = the public `scores` table, rows <<s, e, pick, score>> with *)
(*             pick = split k (contains) or <<a, b>> (overlaps),          *)
(*    splits = per candidate the list of <<pick, value>> over ALL picks   *)
(*             (values summed over columns, from an independent scorer),  *)
(*    out    = reported changepoints / <<a, b>> pairs (in order),         *)
(*    rk, rkthr = dense ranks of the reported scores and of threshold_    *)
(*             (order and equality preserved exactly): the greedy         *)
(*             selection is judged on these without tolerance; the VALUE  *)
(*             of a score is judged against the splits within tol.        *)
(* record "pair": low, high = outputs for a lower / higher threshold.     *)
(***************************************************************************)
EXTENDS GreedyDefs, TLC, Json, IOUtils

Cases == JsonDeserialize(IOEnv.TRACE_FILE)
VARIABLES tid, verdict

PicksOf(mode, c, m) == IF mode = "contains" THEN (c[1] + m)..(c[2] - m) ELSE Inner(c[1], c[2], m)

RunVerdict(c) ==
    LET K  == Len(c.table)
        iv == [i \in 1..K |-> <<c.table[i][1], c.table[i][2]>>]
        pk == [i \in 1..K |-> c.table[i][3]]
        sc == [i \in 1..K |-> c.table[i][4]]
        vals(i) == {c.splits[i][j][2] : j \in 1..Len(c.splits[i])}
        valAt(i, p) == LET j == CHOOSE x \in 1..Len(c.splits[i]) : c.splits[i][x][1] = p IN c.splits[i][j][2]
        recorded(i) == {c.splits[i][j][1] : j \in 1..Len(c.splits[i])}
        outset == Range(c.out)
    IN IF K = 0 THEN "fail:no_candidate_interval"
       ELSE IF \E i \in 1..K : ~SeededAdmissible(iv[i], c.n, c.m, c.L) THEN "fail:interval_not_admissible"
       ELSE IF \E i \in 1..K : recorded(i) # PicksOf(c.mode, iv[i], c.m) THEN "fail:harness_recorded_other_splits_than_the_spec"
       ELSE IF \E i \in 1..K : IF recorded(i) = {} THEN sc[i] # 0 ELSE Abs(sc[i] - Max(vals(i))) > c.tol
         THEN "fail:interval_score_is_not_the_maximum"
       ELSE IF \E i \in 1..K : recorded(i) # {} /\ (pk[i] \notin recorded(i) \/ valAt(i, pk[i]) < Max(vals(i)) - c.tol)
         THEN "fail:interval_argmax_is_not_a_maximiser"
       ELSE IF Len(c.out) # Cardinality(outset) THEN "fail:duplicate_detection"
       ELSE IF c.mode = "contains" /\ ~(\A a, b \in outset \cup {0, c.n} : a # b => Abs(a - b) >= c.m)
         THEN "fail:segment_too_short"
       ELSE IF c.mode = "contains" /\ ~IsStrictlyIncreasing(c.out) THEN "fail:not_sorted"
       ELSE IF c.mode = "overlaps" /\ ~(/\ \A a, b \in outset : a # b => (a[2] <= b[1] \/ b[2] <= a[1])
                                        /\ \A a \in outset : a[1] >= 1 /\ a[2] <= c.n - 1 /\ a[2] - a[1] >= c.m
                                        /\ \A i \in 1..(Len(c.out) - 1) : c.out[i][2] <= c.out[i + 1][1])
         THEN "fail:anomalies_not_disjoint_inside_sorted"
       ELSE IF ~GreedyAdmits(iv, c.rk, pk, c.rkthr, 0, c.mode, outset) THEN "fail:not_a_greedy_result"
       ELSE "ok"

PairVerdict(c) == IF Range(c.high) \subseteq Range(c.low) THEN "ok" ELSE "fail:higher_threshold_added_detection"

(* record "intervals" (growth, see SeededIntervals.tla): n, minlen, L, starts, ends as returned by    *)
(* make_seeded_intervals.  The list must consist of blocks, one per interval length: each block     *)
(* starts at 0, advances by a constant step >= 1, all its intervals but the last have the block's   *)
(* length, its last interval ends at n and every interval is at least minlen long; block lengths    *)
(* increase strictly from minlen to at most min(L, n).                                               *)
IntervalsVerdict(c) ==
    LET K == Len(c.starts)
        firsts == {i \in 1..K : c.starts[i] = 0 /\ (i = 1 \/ c.starts[i - 1] # 0 \/ c.ends[i - 1] = c.n)}
        isFirst(i) == i \in firsts
        blockStart(i) == Max({j \in firsts : j <= i})
        blockEnd(i) == IF \E j \in firsts : j > i THEN Min({j \in firsts : j > i}) - 1 ELSE K
        len(i) == c.ends[i] - c.starts[i]
        blen(i) == len(blockStart(i))
        cap == IF c.L < c.n THEN c.L ELSE c.n
    IN IF K = 0 THEN "fail:no_candidate_interval"
       ELSE IF c.starts[1] # 0 THEN "fail:first_interval_does_not_start_at_0"
       ELSE IF \E i \in 1..K : c.starts[i] < 0 \/ c.ends[i] > c.n \/ len(i) < c.minlen \/ len(i) > cap THEN "fail:interval_not_admissible"
       ELSE IF \E i \in 1..K : c.ends[blockEnd(i)] # c.n THEN "fail:block_does_not_reach_the_end"
       ELSE IF \E i \in 1..K : i # blockEnd(i) /\ len(i) # blen(i) THEN "fail:inner_interval_of_block_has_other_length"
       ELSE IF \E i \in 1..K : len(i) > blen(i) THEN "fail:interval_longer_than_its_block"
       ELSE IF \E i \in 1..(K - 2) : blockStart(i) = blockStart(i + 2) /\ i + 2 # blockEnd(i)     \* a block's last start may be adjusted
                                       /\ c.starts[i + 1] - c.starts[i] # c.starts[i + 2] - c.starts[i + 1]
         THEN "fail:steps_within_block_not_constant"
       ELSE IF \E i \in 1..(K - 1) : blockStart(i) = blockStart(i + 1) /\ i + 1 # blockEnd(i) /\ c.starts[i + 1] <= c.starts[i] THEN "fail:step_not_positive"
       ELSE IF blen(1) # c.minlen THEN "fail:first_block_is_not_the_minimum_length"
       ELSE IF \E i, j \in firsts : i < j /\ blen(i) >= blen(j) THEN "fail:block_lengths_not_increasing"
       ELSE "ok"

Verdict(c) == IF c.rec = "run" THEN RunVerdict(c) ELSE IF c.rec = "intervals" THEN IntervalsVerdict(c) ELSE PairVerdict(c)

Init == tid = 0 /\ verdict = "start"
Next == /\ tid < Len(Cases)
        /\ tid' = tid + 1
        /\ verdict' = Verdict(Cases[tid + 1])
        /\ PrintT(<<"VERDICT", Cases[tid + 1].id, verdict'>>)
=============================================================================
