--------------------------- MODULE Trace_Anomaliser --------------------------
(***************************************************************************)
(* Stage C for C17: StatThresholdAnomaliser around REAL change detectors. *)
(* record: n, x (integers), cps (changepoints of a fresh clone of the     *)
(* wrapped detector on the same data), kind, ln, hn, d (bounds ln/d,      *)
(* hn/d), rows (reported [s, e] pairs in order), wrapped_untouched.       *)
(***************************************************************************)
EXTENDS AnomaliserDefs, TLC, Json, IOUtils

Cases == JsonDeserialize(IOEnv.TRACE_FILE)
VARIABLES tid, verdict

Verdict(c) ==
    LET x == [i \in 0..(c.n - 1) |-> c.x[i + 1]]
        rows == {<<c.rows[k][1], c.rows[k][2]>> : k \in 1..Len(c.rows)}
        want == Flagged(c.kind, x, Range(c.cps), c.n, c.ln, c.hn, c.d)
    IN IF ~c.wrapped_untouched THEN "fail:wrapped_detector_fitted_or_altered"
       ELSE IF \E sg \in want : sg \notin rows THEN "fail:out_of_range_segment_not_flagged"
       ELSE IF \E sg \in rows : sg \notin want THEN "fail:flagged_interval_is_not_an_out_of_range_segment"
       ELSE IF Len(c.rows) # Cardinality(rows) \/ \E k \in 1..(Len(c.rows) - 1) : c.rows[k][2] > c.rows[k + 1][1]
         THEN "fail:rows_not_sorted_or_duplicated"
       ELSE "ok"

Init == tid = 0 /\ verdict = "start"
Next == /\ tid < Len(Cases)
        /\ tid' = tid + 1
        /\ verdict' = Verdict(Cases[tid + 1])
        /\ PrintT(<<"VERDICT", Cases[tid + 1].id, verdict'>>)
=============================================================================
