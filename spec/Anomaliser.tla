------------------------------ MODULE Anomaliser -----------------------------
(***************************************************************************)
(* IMPLEMENTATION LAYER for C17: StatThresholdAnomaliser._fit / _predict. *)
(*   fit     : change_detector_ = clone of the wrapped detector, fitted;  *)
(*             the wrapped detector object itself stays untouched         *)
(*   predict : dense segment labels from the clone's transform, rows      *)
(*             grouped by label, statistic of the first column per group, *)
(*             interval (first row, last row + 1) for each flagged group  *)
(* The wrapped detector is a user-defined "program": a stub returning any *)
(* changepoint set.                                                        *)
(* Cmp = "strict" (code) | "inclusive" (<= / >=: mutant)                   *)
(* Adjacent = "separate" (code) | "merge" (adjacent flagged segments      *)
(*            merged: mutant)                                              *)
(* FitTarget = "clone" (code) | "wrapped" (fits the user's object: mutant)*)
(***************************************************************************)
EXTENDS AnomaliserDefs, FormatsDefs, TLC, Json

CONSTANTS N, VNeg, VPos, Kinds, LoHi, Cmp, Adjacent, FitTarget, Emit, NSlices, Slice

VARIABLES x, cps, kind, lo, hi, wrappedFitted, cloneFitted, out, pc
vars == <<x, cps, kind, lo, hi, wrappedFitted, cloneFitted, out, pc>>

Init ==
    /\ x \in [0..(N - 1) -> (0 - VNeg)..VPos]
    /\ cps \in SUBSET (1..(N - 1))
    /\ kind \in Kinds
    /\ lo \in (0 - LoHi)..LoHi /\ hi \in (0 - LoHi)..LoHi /\ lo <= hi
    /\ (SumOver([i \in 0..(N - 1) |-> (x[i] + 5) * ((37 * i * i + 101 * i + 13) % 997)], 0..(N - 1)) + 331 * (lo + 9) + 577 * (hi + 9)
        + SumOver([c \in cps |-> c * c * 7], cps)) % NSlices = Slice
    /\ wrappedFitted = FALSE /\ cloneFitted = FALSE /\ out = <<>> /\ pc = "new"

Fit ==
    /\ pc = "new" /\ pc' = "fitted"
    /\ IF FitTarget = "clone" THEN cloneFitted' = TRUE /\ UNCHANGED wrappedFitted
       ELSE wrappedFitted' = TRUE /\ cloneFitted' = TRUE
    /\ UNCHANGED <<x, cps, kind, lo, hi, out>>

\* rows grouped by the dense label; a group's interval is (first row, last row + 1)
Predict ==
    /\ pc = "fitted" /\ pc' = "done"
    /\ LET dense == S2DChange(cps, N)
           labs  == {dense[i] : i \in 0..(N - 1)}
           grp(l) == {i \in 0..(N - 1) : dense[i] = l}
           seg(l) == <<Min(grp(l)), Max(grp(l)) + 1>>
           v(l)   == Stat(kind, x, seg(l))
           flag(l) == IF Cmp = "strict" THEN Below(v(l), lo, 1) \/ Above(v(l), hi, 1)
                      ELSE ~Above(v(l), lo, 1) \/ ~Below(v(l), hi, 1)
           fl == {seg(l) : l \in {m \in labs : flag(m)}}
           merged == {sg \in (0..N) \X (0..N) : /\ sg[1] < sg[2]
                                                /\ \E a \in fl : a[1] = sg[1]
                                                /\ \E b \in fl : b[2] = sg[2]
                                                /\ \A i \in sg[1]..(sg[2] - 1) : \E c \in fl : c[1] <= i /\ i < c[2]
                                                /\ ~\E c \in fl : c[2] = sg[1] \/ c[1] = sg[2]}
           res == IF Adjacent = "separate" THEN fl ELSE merged
       IN out' = [k \in 1..Cardinality(res) |-> LET c == SortedSeq({100 * sg[1] + sg[2] : sg \in res})[k] IN <<c \div 100, c % 100>>]
    /\ UNCHANGED <<x, cps, kind, lo, hi, wrappedFitted, cloneFitted>>

Next == Fit \/ Predict

\* exactly the flagged segments, each as its own interval, in order
FlagsExactly == pc = "done" => Range(out) = Flagged(kind, x, cps, N, lo, hi, 1) /\ Len(out) = Cardinality(Range(out))
Sorted == pc = "done" => \A k \in 1..(Len(out) - 1) : out[k][2] <= out[k + 1][1]
\* the wrapped detector passed by the user is never fitted; a clone is
WrappedUntouched == ~wrappedFitted /\ (pc # "new" => cloneFitted)

CaseRecord == [n |-> N, x |-> [i \in 1..N |-> x[i - 1]], cps |-> SortedSeq(cps), kind |-> kind, lo |-> lo, hi |-> hi,
               rows |-> out]
EmitDone == (Emit /\ pc = "done") => PrintT(<<"CASE", ToJson(CaseRecord)>>)
=============================================================================
