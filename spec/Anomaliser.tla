------------------------------ MODULE Anomaliser -----------------------------
(***************************************************************************)
(* IMPLEMENTATION LAYER for C17: StatThresholdAnomaliser._fit / _predict. *)
(*   fit     : change_detector_ = clone of the wrapped detector, fitted;  *)
(*             the wrapped detector object itself stays untouched         *)
(*   predict : dense segment labels from the clone's transform, rows      *)
(*             grouped by label, statistic of the first column per group, *)
(*             interval (first row, last row + 1) for each flagged group  *)
(* The wrapped detector is a user-defined "program": a stub returning any *)
(* changepoint set.                                                        *)
(* Cmp = "strict" (code) | "inclusive" (<= / >=: mutant)                   *)
(* Adjacent = "separate" (code) | "merge" (adjacent flagged segments      *)
(*            merged: mutant)                                              *)
(* FitTarget = "clone" (code) | "wrapped" (fits the user's object: mutant)*)
(* Rounds = 1 | 2: with 2 the user RECONFIGURES the wrapped detector       *)
(*          object (set_params: its program becomes cps2) after the first  *)
(*          fit / predict and fits the anomaliser again: the second answer *)
(*          must follow the detector as configured NOW.                    *)
(* CloneWhen = "every_fit" (code) | "first_fit" (the clone made by the     *)
(*          first fit is kept and re-fitted: seeded change C17-e)          *)
(***************************************************************************)
EXTENDS AnomaliserDefs, FormatsDefs, TLC, Json

CONSTANTS N, VNeg, VPos, Kinds, LoHi, Cmp, Adjacent, FitTarget, Emit, NSlices, Slice, Rounds, CloneWhen

VARIABLES x, cps, kind, lo, hi, wrappedFitted, cloneFitted, out, pc,
          cps2, round, cloneCps, out1
vars == <<x, cps, kind, lo, hi, wrappedFitted, cloneFitted, out, pc, cps2, round, cloneCps, out1>>
\* the wrapped detector's program (the changepoints it reports) as the user has configured it NOW
Prog == IF round = 1 THEN cps ELSE cps2

Init ==
    /\ x \in [0..(N - 1) -> (0 - VNeg)..VPos]
    /\ cps \in SUBSET (1..(N - 1))
    /\ kind \in Kinds
    /\ lo \in (0 - LoHi)..LoHi /\ hi \in (0 - LoHi)..LoHi /\ lo <= hi
    /\ (SumOver([i \in 0..(N - 1) |-> (x[i] + 5) * ((37 * i * i + 101 * i + 13) % 997)], 0..(N - 1)) + 331 * (lo + 9) + 577 * (hi + 9)
        + SumOver([c \in cps |-> c * c * 7], cps)) % NSlices = Slice
    /\ wrappedFitted = FALSE /\ cloneFitted = FALSE /\ out = <<>> /\ pc = "new"
    /\ cps2 \in (IF Rounds = 2 THEN SUBSET (1..(N - 1)) ELSE {cps}) /\ round = 1 /\ cloneCps = {} /\ out1 = <<>>

Fit ==
    /\ pc = "new" /\ pc' = "fitted"
    /\ IF FitTarget = "clone" THEN cloneFitted' = TRUE /\ UNCHANGED wrappedFitted
       ELSE wrappedFitted' = TRUE /\ cloneFitted' = TRUE
    /\ cloneCps' = (IF CloneWhen = "first_fit" /\ cloneFitted THEN cloneCps ELSE Prog)     \* change_detector_ = change_detector.clone()
    /\ UNCHANGED <<x, cps, kind, lo, hi, out, cps2, round, out1>>

\* rows grouped by the dense label; a group's interval is (first row, last row + 1)
Predict ==
    /\ pc = "fitted" /\ pc' = "done"
    /\ LET dense == S2DChange(cloneCps, N)
           labs  == {dense[i] : i \in 0..(N - 1)}
           grp(l) == {i \in 0..(N - 1) : dense[i] = l}
           seg(l) == <<Min(grp(l)), Max(grp(l)) + 1>>
           v(l)   == Stat(kind, x, seg(l))
           flag(l) == IF Cmp = "strict" THEN Below(v(l), lo, 1) \/ Above(v(l), hi, 1)
                      ELSE ~Above(v(l), lo, 1) \/ ~Below(v(l), hi, 1)
           fl == {seg(l) : l \in {m \in labs : flag(m)}}
           merged == {sg \in (0..N) \X (0..N) : /\ sg[1] < sg[2]
                                                /\ \E a \in fl : a[1] = sg[1]
                                                /\ \E b \in fl : b[2] = sg[2]
                                                /\ \A i \in sg[1]..(sg[2] - 1) : \E c \in fl : c[1] <= i /\ i < c[2]
                                                /\ ~\E c \in fl : c[2] = sg[1] \/ c[1] = sg[2]}
           res == IF Adjacent = "separate" THEN fl ELSE merged
       IN out' = [k \in 1..Cardinality(res) |-> LET c == SortedSeq({100 * sg[1] + sg[2] : sg \in res})[k] IN <<c \div 100, c % 100>>]
    /\ UNCHANGED <<x, cps, kind, lo, hi, wrappedFitted, cloneFitted, cps2, round, cloneCps, out1>>

\* the user calls set_params on THEIR detector object (never on the anomaliser's clone) and fits the anomaliser again
Reconfigure ==
    /\ Rounds = 2 /\ round = 1 /\ pc = "done"
    /\ round' = 2 /\ pc' = "new" /\ out1' = out
    /\ UNCHANGED <<x, cps, kind, lo, hi, wrappedFitted, cloneFitted, out, cps2, cloneCps>>

Next == Fit \/ Predict \/ Reconfigure

\* exactly the flagged segments, each as its own interval, in order
FlagsExactly == pc = "done" => Range(out) = Flagged(kind, x, Prog, N, lo, hi, 1) /\ Len(out) = Cardinality(Range(out))
Sorted == pc = "done" => \A k \in 1..(Len(out) - 1) : out[k][2] <= out[k + 1][1]
\* the wrapped detector passed by the user is never fitted; a clone is
WrappedUntouched == ~wrappedFitted /\ (pc # "new" => cloneFitted)

CaseRecord == [n |-> N, x |-> [i \in 1..N |-> x[i - 1]], cps |-> SortedSeq(cps), kind |-> kind, lo |-> lo, hi |-> hi,
               rows |-> out, rounds |-> Rounds, cps2 |-> SortedSeq(cps2), rows1 |-> IF Rounds = 2 THEN out1 ELSE out]
EmitDone == (Emit /\ pc = "done" /\ round = Rounds) => PrintT(<<"CASE", ToJson(CaseRecord)>>)
=============================================================================
