------------------------------- MODULE Common -------------------------------
(***************************************************************************)
(* Helper operators shared by every skchange specification module.        *)
(* Positions are 0-based integer locations exactly as in the Python code; *)
(* an interval <<s, e>> denotes the rows s .. e-1 (left closed).          *)
(***************************************************************************)
EXTENDS Integers, FiniteSets, Sequences

Min(S) == CHOOSE x \in S : \A y \in S : x <= y
Max(S) == CHOOSE x \in S : \A y \in S : y <= x
Abs(x) == IF x < 0 THEN -x ELSE x
Pos(x) == IF x < 0 THEN 0 ELSE x

ArgMin(f, S) == {x \in S : \A y \in S : f[x] <= f[y]}
ArgMax(f, S) == {x \in S : \A y \in S : f[y] <= f[x]}

RECURSIVE SumOver(_, _)
SumOver(f, S) == IF S = {} THEN 0
                 ELSE LET x == CHOOSE y \in S : TRUE IN f[x] + SumOver(f, S \ {x})

RECURSIVE SumSeq(_, _)
\* sum of the first k entries of sequence q
SumSeq(q, k) == IF k = 0 THEN 0 ELSE q[k] + SumSeq(q, k - 1)
SumAll(q) == SumSeq(q, Len(q))

Range(q) == {q[i] : i \in 1..Len(q)}
IsStrictlyIncreasing(q) == \A i \in 1..(Len(q) - 1) : q[i] < q[i + 1]

\* the set S as the increasing sequence of its elements
RECURSIVE SortedSeq(_)
SortedSeq(S) == IF S = {} THEN <<>> ELSE <<Min(S)>> \o SortedSeq(S \ {Min(S)})

Intervals(n) == {<<s, e>> \in (0..n) \X (0..n) : s < e}
LenOf(iv) == iv[2] - iv[1]
=============================================================================
