------------------------------ MODULE Generators ------------------------------
(***************************************************************************)
(* C18: skchange.datasets.generate.                                        *)
(*                                                                         *)
(* PROPERTY LAYER: argument validation as a decision function (Judged /   *)
(* MustRaise), the affine map  out[i] = a[i] + b[i] * z[i]  every row     *)
(* must carry (z = the standard-normal output for the same seed), and the *)
(* admitted outlier rows.  A row map entry is <<a, b>> per column with    *)
(* b = sqrt(variance) (variances are perfect squares so that b is exact). *)
(* Profile selects the parameter values: "distinct" (all different from   *)
(* the identity map) or "identity_mixed" (see MeanOf / SdOf).              *)
(* IMPLEMENTATION LAYER: validation chain, then the in-place affine       *)
(* transform applied segment by segment / anomaly by anomaly (one action  *)
(* per loop turn) with Python slice semantics, so that a negative         *)
(* position that slips through validation WRAPS AROUND in the model as it *)
(* does in the code.                                                        *)
(* Check = "code" (repaired) | "upper_only" (pinned: only the upper end   *)
(* of the data is checked; negative configuration).                        *)
(***************************************************************************)
EXTENDS Common, TLC, Json

CONSTANTS N, P, MaxK, Check, Emit, NSlices, Slice, Profile

Posns == (0 - 1)..(N + 1)

VARIABLES fn, pos, nmeans, nvars, outcome, rowmap, k, pc
vars == <<fn, pos, nmeans, nvars, outcome, rowmap, k, pc>>

\* the requested parameters: item j (segment j or anomaly j, 1-based) has mean j + 10*c and sd j + 1
\* in column c; when a single mean / variance is given it applies to every item
\* Profile = "identity_mixed": the same grid with parameters that coincide with the untransformed noise in SOME
\* places only -- odd items have mean 0 in every column, column 1 has sd 1 for every item, even items have sd 1 in
\* every column -- so that a shortcut for "nothing to do" that tests too little is exercised (seeded change C18-d)
MJ(j) == IF nmeans = 1 THEN 1 ELSE j      \* which of the given means / variances item j uses
VJ(j) == IF nvars = 1 THEN 1 ELSE j
MeanOf(j, c) == IF Profile = "identity_mixed" THEN (IF MJ(j) % 2 = 1 THEN 0 ELSE MJ(j) + 10 * c)
                ELSE IF nmeans = 1 THEN 1 + 10 * c ELSE j + 10 * c
SdOf(j, c)   == IF Profile = "identity_mixed" THEN (IF c = 1 \/ VJ(j) % 2 = 0 THEN 1 ELSE VJ(j) + 1)
                ELSE IF nvars = 1 THEN 2 ELSE j + 1
Identity     == [c \in 1..P |-> <<0, 1>>]

NItems == IF fn = "changing" THEN Len(pos) + 1 ELSE Len(pos)

(* ------------------------------ property layer ------------------------- *)
CountsOK == (nmeans = 1 \/ nmeans = NItems) /\ (nvars = 1 \/ nvars = NItems)
InsideOK ==
    IF fn = "changing" THEN \A i \in 1..Len(pos) : pos[i] >= 0 /\ pos[i] <= N - 1
    ELSE \A i \in 1..Len(pos) : pos[i][1] >= 0 /\ pos[i][2] <= N /\ pos[i][1] < pos[i][2]
\* inconsistent arguments must raise ValueError
MustRaise == ~CountsOK \/ ~InsideOK
\* placement is judged for non-decreasing changepoints in 0..n-1 (a changepoint at 0 or a repeated
\* one requests an EMPTY segment, whose parameters are simply not used) / anomalies inside the data
Judged == IF fn = "changing" THEN \A i \in 1..Len(pos) : pos[i] >= 0 /\ pos[i] <= N - 1
          ELSE InsideOK
\* composition of affine maps: the later item applies on top of what is there
Compose(j, old) == [c \in 1..P |-> <<MeanOf(j, c) + SdOf(j, c) * old[c][1], SdOf(j, c) * old[c][2]>>]
RECURSIVE ApplyAll(_, _)
\* row i after all items 1..j, by definition: segment containing i / every anomaly covering i, in order
ApplyAll(i, j) ==
    IF j = 0 THEN Identity
    ELSE LET prev == ApplyAll(i, j - 1)
             covers == IF fn = "changing"
                       THEN LET b == <<0>> \o pos \o <<N>> IN b[j] <= i /\ i < b[j + 1]
                       ELSE pos[j][1] <= i /\ i < pos[j][2]
         IN IF covers THEN Compose(j, prev) ELSE prev
RowMapDef == [i \in 0..(N - 1) |-> ApplyAll(i, NItems)]

(* --------------------------- implementation layer ---------------------- *)
IsNonDecreasing(q) == \A i \in 1..(Len(q) - 1) : q[i] <= q[i + 1]
ChangingPositions == {q \in UNION {[1..m -> Posns] : m \in 0..MaxK} : IsNonDecreasing(q)}
AnomalyPositions  == UNION {[1..m -> Posns \X Posns] : m \in 1..MaxK}

Init ==
    /\ fn \in {"changing", "anomalous"}
    /\ pos \in IF fn = "changing" THEN ChangingPositions ELSE AnomalyPositions
    /\ nmeans \in 1..(MaxK + 2) /\ nvars \in 1..(MaxK + 2)
    /\ (nmeans * 7 + nvars * 13 + Len(pos) * 31 + (IF fn = "changing" THEN 3 ELSE 0)
        + SumOver([i \in 1..Len(pos) |-> IF fn = "changing" THEN (pos[i] + 2) * (17 * i + 5) ELSE (pos[i][1] + 2) * (19 * i + 3) + (pos[i][2] + 2) * (23 * i + 1)],
                  1..Len(pos))) % NSlices = Slice
    /\ outcome = "none" /\ rowmap = <<>> /\ k = 0 /\ pc = "validate"

\* the validation chain of the code
Validate ==
    /\ pc = "validate"
    /\ LET counts == CountsOK
           range  == IF fn = "changing"
                     THEN \A i \in 1..Len(pos) : pos[i] <= N - 1 /\ (Check = "code" => pos[i] >= 0)
                     ELSE /\ \A i \in 1..Len(pos) : pos[i][2] > pos[i][1]
                          /\ \A i \in 1..Len(pos) : pos[i][2] <= N /\ (Check = "code" => pos[i][1] >= 0)
       IN IF counts /\ range
          THEN pc' = "apply" /\ outcome' = "ok" /\ rowmap' = [i \in 0..(N - 1) |-> Identity] /\ k' = 1
          ELSE pc' = "done" /\ outcome' = "ValueError" /\ UNCHANGED <<rowmap, k>>
    /\ UNCHANGED <<fn, pos, nmeans, nvars>>

\* Python slice x[a:b] on n rows: negative bounds wrap, bounds are clipped
PyIdx(a)       == IF a < 0 THEN (IF a + N < 0 THEN 0 ELSE a + N) ELSE IF a > N THEN N ELSE a
InSlice(i, a, b) == PyIdx(a) <= i /\ i < PyIdx(b)
\* x[prev:next] = mean + sqrt(var) * x[prev:next], one item per loop turn
Apply ==
    /\ pc = "apply"
    /\ IF k <= NItems
       THEN LET a == IF fn = "changing" THEN (<<0>> \o pos \o <<N>>)[k] ELSE pos[k][1]
                b == IF fn = "changing" THEN (<<0>> \o pos \o <<N>>)[k + 1] ELSE pos[k][2]
            IN /\ rowmap' = [i \in 0..(N - 1) |-> IF InSlice(i, a, b) THEN Compose(k, rowmap[i]) ELSE rowmap[i]]
               /\ k' = k + 1 /\ pc' = "apply"
       ELSE pc' = "done" /\ UNCHANGED <<rowmap, k>>
    /\ UNCHANGED <<fn, pos, nmeans, nvars, outcome>>

Next == Validate \/ Apply

(* -------------------------------- invariants --------------------------- *)
\* inconsistent arguments raise; consistent judged arguments are accepted
RaisesIffInconsistent == pc = "done" =>
    /\ MustRaise => outcome = "ValueError"
    /\ (Judged /\ CountsOK) => outcome = "ok"
\* every row carries exactly the requested affine map
PlacedWhereRequested == (pc = "done" /\ outcome = "ok" /\ Judged) => rowmap = RowMapDef
\* nothing is ever placed silently by wrapping a negative position around
NoSilentWrap == (pc = "done" /\ outcome = "ok") => InsideOK

(* ------------------- outlier rows (add_linspace_outliers) -------------- *)
\* k rows evenly spaced from the first to the last row: the j-th row r_j (j = 0..k-1) satisfies
\* q_j - 1 <= r_j <= q_j with q_j = j (n-1) / (k-1)  (integer truncation of the exact position;
\* an exact integer position may be represented just below itself in floating point)
OutlierAdmits(n, kk, rows) ==
    /\ Len(rows) = kk /\ IsStrictlyIncreasing(rows)
    /\ IF kk = 1 THEN rows[1] = 0
       ELSE /\ rows[1] = 0 /\ rows[kk] = n - 1
            /\ \A j \in 0..(kk - 1) : (kk - 1) * rows[j + 1] <= j * (n - 1) /\ j * (n - 1) <= (kk - 1) * (rows[j + 1] + 1)
FloorRows(n, kk) == [j \in 1..kk |-> IF kk = 1 THEN 0 ELSE ((j - 1) * (n - 1)) \div (kk - 1)]
FloorRowsAdmitted == \A n \in 1..(2 * N) : \A kk \in 1..n : OutlierAdmits(n, kk, FloorRows(n, kk))

(* --------------------------------- emission ---------------------------- *)
CaseRecord ==
    [fn |-> fn, n |-> N, p |-> P, pos |-> pos, nmeans |-> nmeans, nvars |-> nvars,
     means |-> [j \in 1..nmeans |-> [c \in 1..P |-> MeanOf(j, c)]], sds |-> [j \in 1..nvars |-> [c \in 1..P |-> SdOf(j, c)]], profile |-> Profile,
     must_raise |-> MustRaise, judged |-> Judged /\ CountsOK,
     rowmap |-> IF Judged /\ CountsOK THEN [i \in 1..N |-> RowMapDef[i - 1]] ELSE <<>>]
EmitDone == (Emit /\ pc = "done") => PrintT(<<"CASE", ToJson(CaseRecord)>>)
=============================================================================
