------------------------------ MODULE Lifecycle ------------------------------
(***************************************************************************)
(* C10 (and the history part of C11): object life-cycles.                  *)
(*                                                                         *)
(* Two detector slots d1, d2 and their scorer objects.  With Sharing =    *)
(* "shared" both detectors hold THE SAME cost object c0 (aliasing), with  *)
(* "private" each has its own (c1, c2).  A history is any sequence of     *)
(* set_params / reset / clone / deepcopy / pickle / fit / update / predict *)
(* / transform /                                                           *)
(* transform_scores / fit_predict / fit_transform / update_predict calls  *)
(* on the detectors and fit / evaluate calls on                            *)
(* the scorer objects, over several datasets.                              *)
(*                                                                         *)
(* ABSTRACT state (property layer): params, fitted, train -- train is the *)
(* sequence of datasets the fitted model derives from (fit sets it,       *)
(* update appends: later entries override earlier ones by index label --  *)
(* the definition of "combined") -- and lastFit[c], the data given to the *)
(* last fit of scorer object c by anyone (a detector's in-place refit     *)
(* included).  The EXPECTED result of a call is the term                   *)
(*     [m, ps, train, arg]    (method, hyper-parameters, training, input) *)
(* i.e. a function of hyper-parameters, training data and argument only.  *)
(*                                                                         *)
(* HIDDEN state (implementation layer), as the code has it: fitData[d]    *)
(* (what the fitted attributes were computed from), scores[d] (the public *)
(* `scores` attribute written by predict), costData[c] (what the scorer   *)
(* object is currently fitted on).  Every method is modelled by its reads *)
(* and writes of the hidden state; `ret` is what it returns.              *)
(*                                                                         *)
(* Leak = "none" (the code) or a known-bad variant (negative configs):    *)
(*   "cached_scores"   transform_scores returns a cached `scores`          *)
(*   "refit_if_unfit"  the scorer is refitted only if not yet fitted      *)
(*   "update_replaces" update replaces the training data                  *)
(*   "keep_on_set"     set_params keeps the fitted state                  *)
(*   "cached_by_index" a result is reused when the input has the INDEX of  *)
(*                     the previous input (seeded changes C08-d, C10-e)    *)
(*                                                                         *)
(* A parameter set ("p1", "p2") is a COMPLETE configuration: set_params   *)
(* only sets the keys it is given, so the replay's two parameter sets of  *)
(* a detector must have the same keys (asserted by the harness); with     *)
(* unequal keys set_params(p2); set_params(p1) would leave a p2 value     *)
(* behind, which this model does not represent.                           *)
(***************************************************************************)
EXTENDS Common, TLC, Json

CONSTANTS MaxLen, Sharing, Tunes, Leak, Emit, NSlices, Slice, EmitLen

Dets     == {"d1", "d2"}
Data     == {"A", "B", "C", "A2"}            \* A: 12x1, B: 16x2, C: 9x1 (labels 8..16), A2: 12x1 with exactly A's index, other values
Cols(ds) == IF ds = "B" THEN 2 ELSE 1
IndexOf(ds) == IF ds \in {"A", "A2"} THEN "range0_12" ELSE ds      \* A and A2 carry the same index, the others their own
ParamSets == {"p1", "p2"}
Private(d) == IF d = "d1" THEN "c1" ELSE "c2"
Costs    == {"c0", "c1", "c2"}
\* does fit itself run the scorer on the training data (threshold tuning)?  Tunes: "none" | "d1" | "both"
TunesInit(d) == Tunes = "both" \/ (Tunes = "d1" /\ d = "d1")
None     == [m |-> "none"]
NoData   == <<>>
NotFitted == [m |-> "NotFitted"]
Ok       == [m |-> "ok"]

VARIABLES params, fitted, train, lastFit, costOf,   \* abstract (costOf: which scorer object a detector holds)
          userFit,                                  \* abstract: the data of the last EXPLICIT fit of a scorer object by the user
          tunes,                                    \* does the detector in this slot tune on fit (follows clone)
          fitData, scores, costData,                \* hidden
          ret, exp, hist
vars == <<params, fitted, train, lastFit, costOf, userFit, tunes, fitData, scores, costData, ret, exp, hist>>
TunesOnFit(d) == tunes[d]
CostOf(d) == costOf[d]

Init ==
    /\ params = [d \in Dets |-> "p1"] /\ fitted = [d \in Dets |-> FALSE] /\ train = [d \in Dets |-> <<>>]
    /\ lastFit = [c \in Costs |-> NoData] /\ userFit = [c \in Costs |-> NoData]
    /\ costOf = [d \in Dets |-> IF Sharing = "shared" THEN "c0" ELSE Private(d)]
    /\ tunes = [d \in Dets |-> TunesInit(d)]
    /\ fitData = [d \in Dets |-> <<>>] /\ scores = [d \in Dets |-> None] /\ costData = [c \in Costs |-> NoData]
    /\ ret = None /\ exp = None /\ hist = <<>>

Log(op, d, arg, e) == hist' = Append(hist, [op |-> op, obj |-> d, arg |-> arg, exp |-> e, alt |-> e])
LogAlt(op, d, arg, e, a) == hist' = Append(hist, [op |-> op, obj |-> d, arg |-> arg, exp |-> e, alt |-> a])
Term(m, d, tr, arg) == [m |-> m, ps |-> params[d], train |-> tr, arg |-> arg]

\* ---- set_params: sktime's reset deletes every fitted attribute ----------------------------------
SetParams(d, ps) ==
    /\ params' = [params EXCEPT ![d] = ps]
    /\ IF Leak = "keep_on_set" THEN UNCHANGED <<fitData, scores>>
       ELSE fitData' = [fitData EXCEPT ![d] = <<>>] /\ scores' = [scores EXCEPT ![d] = None]
    /\ fitted' = [fitted EXCEPT ![d] = FALSE] /\ train' = [train EXCEPT ![d] = <<>>]
    /\ ret' = Ok /\ exp' = Ok /\ Log("set_params", d, ps, Ok)
    /\ UNCHANGED <<lastFit, costData, costOf, tunes, userFit>>

\* ---- clone: the other slot becomes an unfitted copy with the same hyper-parameters ------------
Clone(d) ==
    LET o == CHOOSE x \in Dets : x # d IN
    /\ params' = [params EXCEPT ![o] = params[d]]
    /\ fitted' = [fitted EXCEPT ![o] = FALSE] /\ train' = [train EXCEPT ![o] = <<>>]
    /\ fitData' = [fitData EXCEPT ![o] = <<>>] /\ scores' = [scores EXCEPT ![o] = None]
    /\ costOf' = [costOf EXCEPT ![o] = Private(o)]          \* the clone holds its own, unfitted scorer copy
    /\ tunes' = [tunes EXCEPT ![o] = tunes[d]]               \* ... and is of the same class
    /\ lastFit' = [lastFit EXCEPT ![Private(o)] = NoData] /\ costData' = [costData EXCEPT ![Private(o)] = NoData]
    /\ userFit' = [userFit EXCEPT ![Private(o)] = NoData]
    /\ ret' = Ok /\ exp' = Ok /\ Log("clone", d, o, Ok)

\* ---- fit / update ---------------------------------------------------------------------------
Fit(d, a) ==
    /\ fitted' = [fitted EXCEPT ![d] = TRUE] /\ train' = [train EXCEPT ![d] = <<a>>]
    /\ fitData' = [fitData EXCEPT ![d] = <<a>>]
    /\ scores' = scores
    /\ IF TunesOnFit(d)
       THEN /\ costData' = [costData EXCEPT ![CostOf(d)] = <<a>>] /\ lastFit' = [lastFit EXCEPT ![CostOf(d)] = <<a>>]
       ELSE UNCHANGED <<lastFit, costData, userFit>>
    /\ ret' = Ok /\ exp' = Ok /\ Log("fit", d, a, Ok)
    /\ UNCHANGED <<params, costOf, tunes, userFit>>

Update(d, a) ==
    /\ IF ~fitted[d] \/ fitData[d] = <<>>
       THEN /\ ret' = (IF fitData[d] = <<>> THEN NotFitted ELSE Ok) /\ exp' = NotFitted
            /\ Log("update", d, a, NotFitted) /\ UNCHANGED <<fitted, train, fitData, lastFit, costData, userFit>>
       ELSE /\ Cols(a) = Cols(train[d][1])
            /\ train' = [train EXCEPT ![d] = Append(train[d], a)]
            /\ fitData' = [fitData EXCEPT ![d] = IF Leak = "update_replaces" THEN <<a>> ELSE Append(fitData[d], a)]
            /\ IF TunesOnFit(d)
               THEN /\ costData' = [costData EXCEPT ![CostOf(d)] = fitData'[d]]
                    /\ lastFit' = [lastFit EXCEPT ![CostOf(d)] = train'[d]]
               ELSE UNCHANGED <<lastFit, costData, userFit>>
            /\ ret' = Ok /\ exp' = Ok /\ Log("update", d, a, Ok) /\ UNCHANGED fitted
    /\ UNCHANGED <<params, scores, costOf, tunes, userFit>>

\* ---- predict / transform / transform_scores -----------------------------------------------------
\* the scorer is refitted IN PLACE on the input at every call
Refit(c, a) == IF Leak = "refit_if_unfit" /\ costData[c] # NoData THEN costData[c] ELSE <<a>>
CallBody(m, d, a, c, seen, computed) ==
    IF fitData[d] = <<>>
    THEN /\ ret' = NotFitted /\ exp' = (IF fitted[d] THEN Term(m, d, train[d], <<a>>) ELSE NotFitted)
         /\ Log(m, d, a, IF fitted[d] THEN Term(m, d, train[d], <<a>>) ELSE NotFitted)
         /\ UNCHANGED <<scores, costData, lastFit, userFit>>
    ELSE /\ costData' = [costData EXCEPT ![c] = seen]
         /\ lastFit' = [lastFit EXCEPT ![c] = <<a>>]
         /\ IF \/ (m = "transform_scores" /\ Leak = "cached_scores" /\ scores[d] # None)
               \/ (Leak = "cached_by_index" /\ scores[d] # None /\ Len(scores[d].arg) = 1 /\ IndexOf(scores[d].arg[1]) = IndexOf(a))
            THEN ret' = [scores[d] EXCEPT !.m = m] /\ scores' = scores
            ELSE ret' = computed /\ scores' = [scores EXCEPT ![d] = computed]
         /\ exp' = (IF fitted[d] THEN Term(m, d, train[d], <<a>>) ELSE NotFitted)
         /\ Log(m, d, a, IF fitted[d] THEN Term(m, d, train[d], <<a>>) ELSE NotFitted)
Call(m, d, a) ==
    /\ UNCHANGED <<params, fitted, train, fitData, costOf, tunes, userFit>>
    /\ CallBody(m, d, a, CostOf(d), Refit(CostOf(d), a),        \* the data the scorer actually evaluates
                [m |-> m, ps |-> params[d], train |-> fitData[d], arg |-> Refit(CostOf(d), a)])

\* ---- compositions offered by the base class: fit_predict / fit_transform = fit ; call,  update_predict = update ; predict
FitCall(m, d, a) ==
    LET base == IF m = "fit_predict" THEN "predict" ELSE "transform"
        c == CostOf(d)
        term == [m |-> base, ps |-> params[d], train |-> <<a>>, arg |-> <<a>>]
    IN /\ fitted' = [fitted EXCEPT ![d] = TRUE] /\ train' = [train EXCEPT ![d] = <<a>>]
       /\ fitData' = [fitData EXCEPT ![d] = <<a>>]
       /\ costData' = [costData EXCEPT ![c] = IF Leak = "refit_if_unfit" /\ costData[c] # NoData /\ ~TunesOnFit(d) THEN costData[c] ELSE <<a>>]
       /\ lastFit' = [lastFit EXCEPT ![c] = <<a>>]
       /\ ret' = [term EXCEPT !.arg = costData'[c]] /\ scores' = [scores EXCEPT ![d] = ret']
       /\ exp' = term /\ Log(m, d, a, term)
       /\ UNCHANGED <<params, costOf, tunes, userFit>>
UpdatePredict(d, a) ==
    /\ fitted[d] /\ fitData[d] # <<>> /\ Cols(a) = Cols(train[d][1])
    /\ LET c == CostOf(d)
           tr == Append(train[d], a)
           fd == IF Leak = "update_replaces" THEN <<a>> ELSE Append(fitData[d], a)
           term == [m |-> "predict", ps |-> params[d], train |-> tr, arg |-> <<a>>]
       IN /\ train' = [train EXCEPT ![d] = tr] /\ fitData' = [fitData EXCEPT ![d] = fd]
          /\ costData' = [costData EXCEPT ![c] = IF Leak = "refit_if_unfit" /\ costData[c] # NoData /\ ~TunesOnFit(d) THEN costData[c] ELSE <<a>>]
          /\ lastFit' = [lastFit EXCEPT ![c] = <<a>>]
          /\ ret' = [m |-> "predict", ps |-> params[d], train |-> fd, arg |-> costData'[c]] /\ scores' = [scores EXCEPT ![d] = ret']
          /\ exp' = term /\ Log("update_predict", d, a, term)
    /\ UNCHANGED <<params, fitted, costOf, tunes, userFit>>
\* ---- copy.deepcopy of a (possibly fitted) detector: same abstract state, its own copy of the scorer
DeepCopy(d) ==
    LET c == CostOf(d) pc == Private(d) IN
    /\ costOf' = [costOf EXCEPT ![d] = pc]
    /\ costData' = [costData EXCEPT ![pc] = costData[c]] /\ lastFit' = [lastFit EXCEPT ![pc] = lastFit[c]]
    /\ userFit' = [userFit EXCEPT ![pc] = userFit[c]]
    /\ ret' = Ok /\ exp' = Ok /\ Log("deepcopy", d, "-", Ok)
    /\ UNCHANGED <<params, fitted, train, tunes, fitData, scores>>

\* ---- pickle round trip (d = pickle.loads(pickle.dumps(d))): what deepcopy does, through __reduce__ / __getstate__
Pickle(d) ==
    LET c == CostOf(d) pc == Private(d) IN
    /\ costOf' = [costOf EXCEPT ![d] = pc]
    /\ costData' = [costData EXCEPT ![pc] = costData[c]] /\ lastFit' = [lastFit EXCEPT ![pc] = lastFit[c]]
    /\ userFit' = [userFit EXCEPT ![pc] = userFit[c]]
    /\ ret' = Ok /\ exp' = Ok /\ Log("pickle", d, "-", Ok)
    /\ UNCHANGED <<params, fitted, train, tunes, fitData, scores>>
\* ---- reset(): back to the state after construction, hyper-parameters (and the scorer OBJECT held) kept
Reset(d) ==
    /\ IF Leak = "keep_on_set" THEN UNCHANGED <<fitData, scores>>
       ELSE fitData' = [fitData EXCEPT ![d] = <<>>] /\ scores' = [scores EXCEPT ![d] = None]
    /\ fitted' = [fitted EXCEPT ![d] = FALSE] /\ train' = [train EXCEPT ![d] = <<>>]
    /\ ret' = Ok /\ exp' = Ok /\ Log("reset", d, "-", Ok)
    /\ UNCHANGED <<params, lastFit, costData, costOf, tunes, userFit>>

\* ---- the scorer objects used directly -----------------------------------------------------------
ScorerFit(c, a) ==
    /\ costData' = [costData EXCEPT ![c] = <<a>>] /\ lastFit' = [lastFit EXCEPT ![c] = <<a>>] /\ userFit' = [userFit EXCEPT ![c] = <<a>>]
    /\ ret' = Ok /\ exp' = Ok /\ Log("scorer_fit", c, a, Ok)
    /\ UNCHANGED <<params, fitted, train, fitData, scores, costOf, tunes>>
\* The property fixes the scorer's result by "the data given to the last fit".  Two readings are admitted: the last
\* fit by anyone, a detector's in-place refit included (exp: what the code does), or the last fit by the USER, for an
\* implementation whose detectors work on their own copy of the scorer (alt).  Only a third outcome is a violation.
ScorerEvaluate(c) ==
    /\ ret' = (IF costData[c] = NoData THEN NotFitted ELSE [m |-> "evaluate", data |-> costData[c]])
    /\ exp' = (IF lastFit[c] = NoData THEN NotFitted ELSE [m |-> "evaluate", data |-> lastFit[c]])
    /\ LogAlt("scorer_evaluate", c, "-", IF lastFit[c] = NoData THEN NotFitted ELSE [m |-> "evaluate", data |-> lastFit[c]],
              IF userFit[c] = NoData THEN NotFitted ELSE [m |-> "evaluate", data |-> userFit[c]])
    /\ UNCHANGED <<params, fitted, train, lastFit, fitData, scores, costData, costOf, tunes, userFit>>

Next ==
    /\ Len(hist) < MaxLen
    /\ \/ \E d \in Dets, ps \in ParamSets : SetParams(d, ps)
       \/ \E d \in Dets : Clone(d)
       \/ \E d \in Dets, a \in Data : Fit(d, a) \/ Update(d, a)
       \/ \E d \in Dets, a \in Data, m \in {"predict", "transform", "transform_scores"} : Call(m, d, a)
       \/ \E d \in Dets, a \in Data, m \in {"fit_predict", "fit_transform"} : FitCall(m, d, a)
       \/ \E d \in Dets, a \in Data : UpdatePredict(d, a)
       \/ \E d \in Dets : DeepCopy(d) \/ Pickle(d) \/ Reset(d)
       \/ \E c \in {costOf[d] : d \in Dets}, a \in Data : ScorerFit(c, a)
       \/ \E c \in {costOf[d] : d \in Dets} : ScorerEvaluate(c)

(* -------------------------------- invariants --------------------------- *)
\* what a call returns is the term of (hyper-parameters, training data, argument): nothing leaks
\* from earlier calls, earlier fits or the other detector sharing the scorer
NoLeak == ret = exp
\* the hidden fitted state always derives from the abstract training data; update = refit on all
UpdateIsRefit == \A d \in Dets : fitData[d] = (IF fitted[d] THEN train[d] ELSE <<>>)
\* only set_params / clone change hyper-parameters
ParamsStable == [][\A d \in Dets : params'[d] # params[d] =>
                     (hist'[Len(hist')].op \in {"set_params", "clone"})]_vars

(* --------------------------------- emission ---------------------------- *)
HistHash == SumOver([i \in 1..Len(hist) |->
                (i * i * 31 + 7) * (IF hist[i].op = "fit" THEN 3 ELSE IF hist[i].op = "predict" THEN 5
                                    ELSE IF hist[i].op = "update" THEN 11 ELSE IF hist[i].op = "transform" THEN 13
                                    ELSE IF hist[i].op = "transform_scores" THEN 17 ELSE IF hist[i].op = "clone" THEN 19
                                    ELSE IF hist[i].op = "set_params" THEN 23 ELSE IF hist[i].op = "scorer_fit" THEN 29
                                    ELSE IF hist[i].op = "fit_predict" THEN 59 ELSE IF hist[i].op = "fit_transform" THEN 61
                                    ELSE IF hist[i].op = "update_predict" THEN 67 ELSE IF hist[i].op = "deepcopy" THEN 71
                                    ELSE IF hist[i].op = "pickle" THEN 73 ELSE IF hist[i].op = "reset" THEN 79 ELSE 37)
                + (IF hist[i].obj \in {"d2", "c2"} THEN 41 * i ELSE 0)
                + (IF hist[i].arg = "B" THEN 43 * i ELSE IF hist[i].arg = "C" THEN 47 * i ELSE IF hist[i].arg = "A2" THEN 53 * i ELSE 0)],
            1..Len(hist))
EmitHist == (Emit /\ Len(hist) = EmitLen /\ HistHash % NSlices = Slice) =>
               PrintT(<<"CASE", ToJson([sharing |-> Sharing, tunes |-> Tunes, hist |-> hist])>>)
=============================================================================
