------------------------------ MODULE ScorerSizes ------------------------------
(***************************************************************************)
(* Growth beyond the listed properties: the two SIZE attributes of an     *)
(* interval scorer that other properties lean on --                        *)
(*   min_size            the minimum spacing of cuts (C13: which cuts are *)
(*                       admissible; C14: "the cost cannot score segments *)
(*                       as short as requested"; C02/C07/C09 search       *)
(*                       ranges),                                          *)
(*   get_param_size(q)   the parameter count for q columns (C15: k in the *)
(*                       CAPA / MVCAPA penalties)                          *)
(* -- as functions of the scorer's kind and of the LAST fit only.          *)
(*                                                                         *)
(* A history is a sequence of Fit(p) (data with p columns), ReadMinSize,  *)
(* ReadParamSize(q) and Probe (the smallest interval length evaluate      *)
(* accepts: the operational meaning of min_size) on ONE scorer object.    *)
(* PROPERTY LAYER: MinSizeDef / ParamSizeDef.  IMPLEMENTATION LAYER: what *)
(* the classes do -- the multivariate Gaussian cost derives its minimum   *)
(* size from the fitted data (None before the first fit), the adapters    *)
(* delegate to the cost object they hold.  Mode = "code" or a known-bad   *)
(* variant (negative configurations):                                      *)
(*   "stale_min_size"   the value is remembered at the first read and     *)
(*                      never cleared by a later fit (seeded change C13-e)*)
(*   "adapter_own_size" adapters answer 1 instead of delegating           *)
(*   "cov_counts_mean_only" get_param_size of the covariance cost = q     *)
(***************************************************************************)
EXTENDS Common, TLC, Json

CONSTANTS MaxP, MaxLen, Mode, Emit

Inner  == {"L2Cost", "GaussianVarCost", "GaussianCovCost"}
Outer  == {"plain", "ChangeScore", "Saving", "LocalAnomalyScore"}
Direct == {"CUSUM", "L2Saving"}                       \* directly implemented scores
Scorers == {[outer |-> o, inner |-> i] : o \in Outer, i \in Inner} \cup {[outer |-> "plain", inner |-> d] : d \in Direct}
NoneVal == 0                                          \* Python's None, for min_size before the first fit

VARIABLES sc, lastP, cached, ret, exp, hist
vars == <<sc, lastP, cached, ret, exp, hist>>

(* ------------------------------ property layer ------------------------- *)
MinSizeDef(s, p) ==
    IF s.inner = "GaussianCovCost" THEN (IF p = 0 THEN NoneVal ELSE p + 1)
    ELSE IF s.inner = "GaussianVarCost" THEN 2 ELSE 1
ParamSizeDef(s, q) ==
    IF s.inner = "GaussianCovCost" THEN q + (q * (q + 1)) \div 2          \* mean vector + symmetric covariance
    ELSE IF s.inner = "GaussianVarCost" THEN 2 * q ELSE q
HasParamSize(s) == s.outer \in {"plain", "Saving"} /\ s.inner # "CUSUM"    \* costs and savings publish it

(* --------------------------- implementation layer ---------------------- *)
Init == sc \in Scorers /\ lastP = 0 /\ cached = NoneVal /\ ret = 0 /\ exp = 0 /\ hist = <<>>

Log(op, arg) == hist' = Append(hist, [op |-> op, arg |-> arg, exp |-> exp'])

Fit(p) ==
    /\ lastP' = p /\ ret' = 0 /\ exp' = 0 /\ Log("fit", p)
    /\ cached' = (IF Mode = "stale_min_size" THEN cached ELSE NoneVal)
    /\ UNCHANGED sc

ImplMinSize ==
    IF Mode = "adapter_own_size" /\ sc.outer # "plain" THEN 1
    ELSE IF Mode = "stale_min_size" /\ cached # NoneVal THEN cached
    ELSE MinSizeDef(sc, lastP)                         \* X_.shape[1] + 1 / the constants 2 and 1; adapters delegate

ReadMinSize ==
    /\ ret' = ImplMinSize /\ exp' = MinSizeDef(sc, lastP) /\ Log("min_size", 0)
    /\ cached' = (IF Mode = "stale_min_size" /\ cached = NoneVal THEN ImplMinSize ELSE cached)
    /\ UNCHANGED <<sc, lastP>>

\* the smallest interval length evaluate accepts equals min_size (only asked of a fitted scorer)
Probe ==
    /\ lastP > 0
    /\ ret' = ImplMinSize /\ exp' = MinSizeDef(sc, lastP) /\ Log("probe", 0)
    /\ cached' = (IF Mode = "stale_min_size" /\ cached = NoneVal THEN ImplMinSize ELSE cached)
    /\ UNCHANGED <<sc, lastP>>

ReadParamSize(q) ==
    /\ HasParamSize(sc)
    /\ ret' = (IF Mode = "cov_counts_mean_only" /\ sc.inner = "GaussianCovCost" THEN q ELSE ParamSizeDef(sc, q))
    /\ exp' = ParamSizeDef(sc, q) /\ Log("param_size", q)
    /\ UNCHANGED <<sc, lastP, cached>>

Next == /\ Len(hist) < MaxLen
        /\ \/ \E p \in 1..MaxP : Fit(p)
           \/ ReadMinSize \/ Probe
           \/ \E q \in 1..MaxP : ReadParamSize(q)

(* -------------------------------- invariants --------------------------- *)
\* both attributes are functions of the kind and of the last fit: nothing is remembered from earlier fits or reads
SizesFollowLastFit == ret = exp
\* what C13 / C14 / C15 assume about them
MinSizeAtLeastOne == (lastP > 0) => MinSizeDef(sc, lastP) >= 1
ParamSizeGrows == \A q \in 1..(MaxP - 1) : ParamSizeDef(sc, q) < ParamSizeDef(sc, q + 1)
ParamSizeAtLeastColumns == \A q \in 1..MaxP : ParamSizeDef(sc, q) >= q

EmitHist == (Emit /\ Len(hist) = MaxLen) => PrintT(<<"CASE", ToJson([sc |-> sc, hist |-> hist])>>)
=============================================================================
