--------------------------- MODULE UpdateMergeDefs ---------------------------
(***************************************************************************)
(* Property layer of UpdateMerge.tla, without constants or variables so    *)
(* that the trace specification can use the same definitions.              *)
(* A table is a sequence of rows <<label, value>>; a history is a sequence *)
(* of label sets; label l of batch i carries the value 10 * i + l.         *)
(***************************************************************************)
EXTENDS Common

ValueOf(i, l) == 10 * i + l
RowsOf(i, B) == [k \in 1..Cardinality(B) |-> <<SortedSeq(B)[k], ValueOf(i, SortedSeq(B)[k])>>]
LabelsOf(t) == {t[k][1] : k \in 1..Len(t)}
RowAt(t, l) == t[CHOOSE k \in 1..Len(t) : t[k][1] = l]

LastHolder(h, l) == Max({i \in 1..Len(h) : l \in h[i]})
Combined(h) ==
    LET U == UNION {h[i] : i \in 1..Len(h)}
    IN [k \in 1..Cardinality(U) |-> LET l == SortedSeq(U)[k] IN <<l, ValueOf(LastHolder(h, l), l)>>]

=============================================================================
