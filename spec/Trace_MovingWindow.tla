------------------------- MODULE Trace_MovingWindow -------------------------
(***************************************************************************)
(* Stage C for C08: recorded MovingWindow runs against the property layer.*)
(* record "run":  n, b, mdi, thr, tol, vals (per-cut change scores of the *)
(*    cuts (t-b, t, t+b), recorded from an independent scorer; entry t+1  *)
(*    for position t, 0 outside [b, n-b]), scores (transform_scores), cps *)
(*    rk / rkthr: dense ranks of the detector's own exact scores and its  *)
(*    threshold_ (order and equality preserved exactly): the runs of      *)
(*    exceedances and their peaks are judged on these, without tolerance; *)
(*    the VALUE of the scores is judged against vals within tol.          *)
(* record "reversal": n, tol, a (scores on X), r (scores on reversed X)   *)
(* All numbers are integers (quantised, DESIGN section 3).                *)
(***************************************************************************)
EXTENDS MovingWindowDefs, TLC, Json, IOUtils

Cases == JsonDeserialize(IOEnv.TRACE_FILE)
VARIABLES tid, verdict

RunVerdict(c) ==
    LET sc == [t \in 0..(c.n - 1) |-> c.scores[t + 1]]
        vl == [t \in 0..(c.n - 1) |-> IF t >= c.b /\ t <= c.n - c.b THEN c.vals[t + 1] ELSE 0]
        rk == [t \in 0..(c.n - 1) |-> c.rk[t + 1]]
        ex == [t \in 0..(c.n - 1) |-> rk[t] > c.rkthr]      \* "exceeds" is strict
    IN IF \E t \in 0..(c.n - 1) : Abs(sc[t] - vl[t]) > c.tol THEN "fail:score_is_not_the_two_sided_window_score"
       ELSE IF \E k \in 1..Len(c.cps) : c.cps[k] < c.b \/ c.cps[k] > c.n - c.b THEN "fail:changepoint_outside_bandwidth_range"
       ELSE IF ~IsStrictlyIncreasing(c.cps) THEN "fail:not_strictly_increasing"
       ELSE IF ~PeaksAdmitN(rk, ex, c.mdi, c.n, Range(c.cps), 0) THEN "fail:not_peak_of_each_run"
       ELSE "ok"

ReversalVerdict(c) ==
    IF \E t \in 1..(c.n - 1) : Abs(c.r[t + 1] - c.a[c.n - t + 1]) > c.tol THEN "fail:reversal_scores"
    ELSE IF Abs(c.r[1]) > c.tol \/ Abs(c.a[1]) > c.tol THEN "fail:score_at_zero"
    ELSE "ok"

Verdict(c) == IF c.rec = "run" THEN RunVerdict(c) ELSE ReversalVerdict(c)

Init == tid = 0 /\ verdict = "start"
Next == /\ tid < Len(Cases)
        /\ tid' = tid + 1
        /\ verdict' = Verdict(Cases[tid + 1])
        /\ PrintT(<<"VERDICT", Cases[tid + 1].id, verdict'>>)
=============================================================================
