------------------------------ MODULE GreedyDefs -----------------------------
(***************************************************************************)
(* PROPERTY LAYER shared by C07 (seeded binary segmentation) and C09      *)
(* (circular binary segmentation): the greedy selection over candidate    *)
(* intervals, and the admissibility of candidate intervals.               *)
(*                                                                         *)
(* Candidates are a SEQUENCE (the implementation may list an interval     *)
(* twice): iv[i] = <<s, e>>, sc[i] its score, pk[i] its pick -- the       *)
(* maximising split (an integer, mode "contains") or the maximising inner *)
(* interval <<a, b>> (mode "overlaps").                                    *)
(***************************************************************************)
EXTENDS Common

Hits(mode, ivl, pick) ==
    IF mode = "contains" THEN ivl[1] <= pick /\ pick <= ivl[2] - 1      \* interval contains the point
    ELSE pick[2] > ivl[1] /\ pick[1] < ivl[2]                           \* interval overlaps the anomaly

\* All results of "repeatedly take the pick of the highest-scoring remaining candidate while its
\* score exceeds the threshold, and discard every candidate the pick hits".  Ties (within tol) are
\* resolved every possible way: the result is a set of pick sets.  `done` = indices discarded.
RECURSIVE GreedyResults(_, _, _, _, _, _, _, _)
GreedyResults(iv, sc, pk, thr, tol, mode, done, picked) ==
    LET live == {i \in 1..Len(iv) : i \notin done}
        hot  == {i \in live : sc[i] > thr}
    IN IF hot = {} THEN {picked}
       ELSE UNION {GreedyResults(iv, sc, pk, thr, tol, mode,
                                 done \cup {j \in live : Hits(mode, iv[j], pk[i])} \cup {i},
                                 picked \cup {pk[i]})
                     : i \in {j \in hot : \A k \in hot : sc[k] <= sc[j] + tol}}
\* Is `out` one of the greedy results?  Same recursion, but only tie candidates whose pick belongs
\* to `out` are followed (any other choice cannot end in `out`), which keeps the search small on
\* tie-heavy inputs.  TLC checks GreedyAdmits = membership in GreedyResults on the small constants.
RECURSIVE GreedyReaches(_, _, _, _, _, _, _, _, _)
GreedyReaches(iv, sc, pk, thr, tol, mode, done, picked, out) ==
    LET live == {i \in 1..Len(iv) : i \notin done}
        hot  == {i \in live : sc[i] > thr}
        \* a candidate's own pick hits it, so the successor state depends on the pick value only:
        \* branch over the distinct picks of the maximal candidates
        nextPicks == {pk[j] : j \in {x \in hot : (\A k \in hot : sc[k] <= sc[x] + tol) /\ pk[x] \in out}}
    IN IF hot = {} THEN picked = out
       ELSE \E p \in nextPicks :
               GreedyReaches(iv, sc, pk, thr, tol, mode,
                             done \cup {j \in live : Hits(mode, iv[j], p)}, picked \cup {p}, out)

\* The deterministic run with the implementation's tie rule (first maximiser), as the SEQUENCE of
\* picks -- used to state that raising the threshold can only remove picks (prefix property).
RECURSIVE GreedySeq(_, _, _, _, _, _)
GreedySeq(iv, sc, pk, thr, mode, done) ==
    LET live == {i \in 1..Len(iv) : i \notin done}
        hot  == {i \in live : sc[i] > thr}
    IN IF hot = {} THEN <<>>
       ELSE LET i == Min({j \in hot : \A k \in hot : sc[k] <= sc[j]})
            IN <<pk[i]>> \o GreedySeq(iv, sc, pk, thr, mode, done \cup {j \in live : Hits(mode, iv[j], pk[i])} \cup {i})

\* the implementation's own tie rule is tried first (cheap), then every other resolution
GreedyAdmits(iv, sc, pk, thr, tol, mode, out) ==
    \/ (tol = 0 /\ Range(GreedySeq(iv, sc, pk, thr, mode, {})) = out)
    \/ GreedyReaches(iv, sc, pk, thr, tol, mode, {}, {}, out)

IsPrefixOf(a, b) == Len(a) <= Len(b) /\ \A i \in 1..Len(a) : a[i] = b[i]

\* C07: candidate intervals lie inside [0, n] and have lengths between 2m and min(L, n)
SeededAdmissible(ivl, n, m, L) ==
    /\ 0 <= ivl[1] /\ ivl[2] <= n
    /\ ivl[2] - ivl[1] >= 2 * m
    /\ ivl[2] - ivl[1] <= (IF L < n THEN L ELSE n)

\* C09: inner intervals of a candidate <<s, e>>: strictly inside, at least m long, leaving at least
\* m surrounding samples
Inner(s, e, m) == {ab \in (s..e) \X (s..e) : /\ s < ab[1] /\ ab[2] < e
                                             /\ ab[2] - ab[1] >= m
                                             /\ (ab[1] - s) + (e - ab[2]) >= m}
=============================================================================
