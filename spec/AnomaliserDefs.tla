--------------------------- MODULE AnomaliserDefs ---------------------------
(***************************************************************************)
(* PROPERTY LAYER for C17 (StatThresholdAnomaliser): the segments          *)
(* delimited by a set of changepoints and the ones whose statistic is     *)
(* below the lower or above the upper bound.  Data are integers; a        *)
(* statistic is a rational <<num, den>> (den > 0) and the bounds are      *)
(* rationals with common denominator d, so every comparison is exact.     *)
(***************************************************************************)
EXTENDS Common

Bounds(cps, n)   == cps \cup {0, n}
SegmentsOf(cps, n) == {<<a, Min({b \in Bounds(cps, n) : b > a})>> : a \in Bounds(cps, n) \ {n}}

RECURSIVE SumData(_, _, _)
SumData(x, s, e) == IF s >= e THEN 0 ELSE x[s] + SumData(x, s + 1, e)
Vals(x, sg) == {x[i] : i \in sg[1]..(sg[2] - 1)}
\* twice the median of the segment (an integer)
Median2(x, sg) ==
    LET idx == sg[1]..(sg[2] - 1)
        len == sg[2] - sg[1]
        \* k-th smallest (1-based), counting multiplicities
        kth(k) == CHOOSE v \in Vals(x, sg) : /\ Cardinality({i \in idx : x[i] < v}) < k
                                             /\ Cardinality({i \in idx : x[i] <= v}) >= k
    IN IF len % 2 = 1 THEN 2 * kth((len + 1) \div 2) ELSE kth(len \div 2) + kth(len \div 2 + 1)

Stat(kind, x, sg) ==
    IF kind = "sum" THEN <<SumData(x, sg[1], sg[2]), 1>>
    ELSE IF kind = "mean" THEN <<SumData(x, sg[1], sg[2]), sg[2] - sg[1]>>
    ELSE IF kind = "min" THEN <<Min(Vals(x, sg)), 1>>
    ELSE IF kind = "max" THEN <<Max(Vals(x, sg)), 1>>
    ELSE IF kind = "median" THEN <<Median2(x, sg), 2>>
    ELSE <<Cardinality({i \in sg[1]..(sg[2] - 1) : x[i] > 0}), 1>>        \* "countpos": a user statistic

\* v < ln/d  and  v > hn/d  for v = <<num, den>>
Below(v, ln, d) == v[1] * d < ln * v[2]
Above(v, hn, d) == v[1] * d > hn * v[2]
\* the flagged segments: statistic strictly outside [lower, upper]
Flagged(kind, x, cps, n, ln, hn, d) ==
    {sg \in SegmentsOf(cps, n) : Below(Stat(kind, x, sg), ln, d) \/ Above(Stat(kind, x, sg), hn, d)}
=============================================================================
