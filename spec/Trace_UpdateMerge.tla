-------------------------- MODULE Trace_UpdateMerge --------------------------
(***************************************************************************)
(* Code -> spec for UpdateMerge: recorded histories fit(B1), update(B2),  *)
(* ... on label sets far larger than the model's constants, with the table *)
(* a user-defined detector's _fit received last.  Record: batches (label  *)
(* lists), table (rows <<label, value>>), with value = 10 * i + label of  *)
(* the batch i that supplied the row.                                      *)
(***************************************************************************)
EXTENDS UpdateMergeDefs, TLC, Json, IOUtils

Cases == JsonDeserialize(IOEnv.TRACE_FILE)
VARIABLES tid, verdict

Verdict(c) ==
    LET h == [i \in 1..Len(c.batches) |-> Range(c.batches[i])]
        t == [k \in 1..Len(c.table) |-> <<c.table[k][1], c.table[k][2]>>]
        U == UNION {h[i] : i \in 1..Len(h)}
    IN IF \E k \in 1..(Len(t) - 1) : t[k][1] >= t[k + 1][1] THEN "fail:labels_not_once_in_order"
       ELSE IF LabelsOf(t) # U THEN "fail:rows_lost_or_invented"
       ELSE IF \E l \in h[Len(h)] : RowAt(t, l)[2] # ValueOf(Len(h), l) THEN "fail:new_rows_do_not_win"
       ELSE IF t # Combined(h) THEN "fail:update_is_not_fit_on_the_combined_data"
       ELSE "ok"

Init == tid = 0 /\ verdict = "start"
Next == /\ tid < Len(Cases)
        /\ tid' = tid + 1
        /\ verdict' = Verdict(Cases[tid + 1])
        /\ PrintT(<<"VERDICT", Cases[tid + 1].id, verdict'>>)
=============================================================================
