-------------------------- MODULE MovingWindowDefs --------------------------
(***************************************************************************)
(* Property-layer operators of C08, parameterised by the series length so *)
(* that both MovingWindow.tla (constants) and Trace_MovingWindow.tla      *)
(* (recorded runs of any length) use the same definitions.                *)
(***************************************************************************)
EXTENDS Common

\* maximal runs of TRUE in ex[0..n-1], as left-closed intervals <<start, end>>
RunsN(ex, n) == {r \in (0..n) \X (0..n) : /\ r[1] < r[2]
                                          /\ \A k \in r[1]..(r[2] - 1) : ex[k]
                                          /\ (r[1] = 0 \/ ~ex[r[1] - 1]) /\ (r[2] = n \/ ~ex[r[2]])}
\* cpset holds exactly one position per run of length >= md, a maximiser of the score in that run
\* (up to tol: recorded float scores are quantised, regime R3)
PeaksAdmitN(sc, ex, md, n, cpset, tol) ==
    LET rs == {r \in RunsN(ex, n) : r[2] - r[1] >= md}
    IN /\ Cardinality(cpset) = Cardinality(rs)
       /\ \A r \in rs : \E c \in cpset : /\ r[1] <= c /\ c < r[2]
                                         /\ \A k \in r[1]..(r[2] - 1) : sc[k] <= sc[c] + tol
=============================================================================
