---------------------------- MODULE Trace_Formats ---------------------------
(***************************************************************************)
(* Stage C for C05 and C04: outputs recorded from the real detectors are  *)
(* validated against the PROPERTY layer of Formats.tla.                   *)
(*                                                                         *)
(* "formats" records (C05): kind, n, p, sparse, dense, back, index_ok     *)
(*     change : sparse/back = list of positions, dense = n labels         *)
(*     anomaly: sparse/back = list of [s, e],     dense = n labels        *)
(*     subset : sparse/back = list of [s, e, cols], dense = n x p labels  *)
(* "output" records (C04): det, n, p, kind, sparse, frame_ok and the      *)
(*     limits minseg, lo, hi (change) / m, mx, inside (anomaly)           *)
(***************************************************************************)
EXTENDS FormatsDefs, TLC, Json, IOUtils

Cases == JsonDeserialize(IOEnv.TRACE_FILE)
VARIABLES tid, verdict

AnomRows(q) == {[s |-> q[k][1], e |-> q[k][2], label |-> k] : k \in 1..Len(q)}
SubRows(q)  == {[s |-> q[k][1], e |-> q[k][2], label |-> k, cols |-> Range(q[k][3])] : k \in 1..Len(q)}
AnomSeq(q)  == [k \in 1..Len(q) |-> [s |-> q[k][1], e |-> q[k][2], label |-> k]]

FormatsVerdict(c) ==
    IF ~c.index_ok THEN "fail:dense_index_differs_from_input_index"
    ELSE IF c.kind = "change" THEN
        IF [i \in 0..(c.n - 1) |-> c.dense[i + 1]] # S2DChange(Range(c.sparse), c.n) THEN "fail:dense_label_at_position"
        ELSE IF c.back # c.sparse THEN "fail:round_trip"
        ELSE "ok"
    ELSE IF c.kind = "anomaly" THEN
        IF ~WFAnomSeq(AnomSeq(c.sparse), c.n) THEN "fail:sparse_not_well_formed"
        ELSE IF [i \in 0..(c.n - 1) |-> c.dense[i + 1]] # S2DAnom(AnomRows(c.sparse), c.n) THEN "fail:dense_label_at_position"
        ELSE IF c.back # c.sparse THEN "fail:round_trip"
        ELSE "ok"
    ELSE
        IF ~WFAnomSeq(AnomSeq(c.sparse), c.n) THEN "fail:sparse_not_well_formed"
        ELSE IF [i \in 0..(c.n - 1) |-> [j \in 0..(c.p - 1) |-> c.dense[i + 1][j + 1]]] # S2DSubset(SubRows(c.sparse), c.n, c.p)
             THEN "fail:dense_label_at_position"
        ELSE IF SubRows(c.back) # SubRows(c.sparse) THEN "fail:round_trip"
        ELSE "ok"

OutputVerdict(c) ==
    IF ~c.frame_ok THEN "fail:frame_format"      \* range index 0..K-1, int64, left-closed intervals, labels column
    ELSE IF c.kind = "change" THEN
        IF WFChange(c.sparse, c.n, c.minseg, c.lo, c.hi) THEN "ok" ELSE "fail:changepoints_not_well_formed"
    ELSE IF ~WFAnomSeq(AnomSeq(c.sparse), c.n) THEN "fail:anomalies_not_well_formed"
    ELSE IF c.lengths = "capa" /\ ~WFCapaLengths(AnomSeq(c.sparse), c.m, c.mx) THEN "fail:length_outside_limits"
    ELSE IF c.lengths = "inside" /\ ~WFInside(AnomSeq(c.sparse), c.n, c.m) THEN "fail:not_strictly_inside_or_too_short"
    ELSE IF c.kind = "subset" /\ \E k \in 1..Len(c.sparse) : ~WFCols(c.sparse[k][3], c.p) THEN "fail:columns_not_well_formed"
    ELSE "ok"

Verdict(c) == IF c.rec = "formats" THEN FormatsVerdict(c) ELSE OutputVerdict(c)

Init == tid = 0 /\ verdict = "start"
Next == /\ tid < Len(Cases)
         /\ tid' = tid + 1
         /\ verdict' = Verdict(Cases[tid + 1])
         /\ PrintT(<<"VERDICT", Cases[tid + 1].id, verdict'>>)
=============================================================================
