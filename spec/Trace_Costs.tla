----------------------------- MODULE Trace_Costs -----------------------------
(***************************************************************************)
(* Stage C for C01 / C06 / C12: values recorded from the built-in costs   *)
(* and scores on lattice data larger than stage B enumerates, validated   *)
(* against the exact statistics of CostsDefs.tla.                          *)
(* record: id, n, p, sc (data = X / sc), X (n rows of p integers),        *)
(*   obs = list of <<kind, cut, j, q, K>> with q = round(value * K):       *)
(*   "l2opt"   cut <<s,e>>     q ~ RSS around the optimal mean of column j *)
(*   "l2fix0"  cut <<s,e>>     q ~ sum of squares (fixed mean 0)           *)
(*   "l2sav"   cut <<s,e>>     q ~ L2 saving  S1^2 / len                   *)
(*   "l2chg"   cut <<s,k,e>>   q ~ L2 change score (also CUSUM squared)    *)
(*   "l2loc"   cut <<s,a,b,e>> q ~ L2 local anomaly score                  *)
(*   "var"     cut <<s,e>>     q ~ recovered variance * len^2              *)
(*   "det"     cut <<s,e>>     q ~ recovered det(scatter) (j unused)       *)
(* A value is accepted when it is within one recording unit (1/K) plus a  *)
(* relative 1e-6 of the exact rational.                                    *)
(***************************************************************************)
EXTENDS CostsDefs, TLC, Json, IOUtils

Cases == JsonDeserialize(IOEnv.TRACE_FILE)
VARIABLES tid, verdict

Mat(c) == [i \in 0..(c.n - 1) |-> c.X[i + 1]]

\* |q / K - num / den| <= 1/K + 1e-5 * |num / den|   with den > 0, all integers (32-bit safe: the
\* harness chooses K per observation so that q * den and num * K stay below 2^30)
Near(q, K, num, den) == Abs(q * den - num * K) <= den + (Abs(num) * K) \div 100000

ObsOK(c, o) ==
    LET X == Mat(c) kind == o[1] cut == o[2] j == o[3] q == o[4] K == o[5] s2c == c.sc * c.sc IN
    IF kind = "l2opt" THEN LET st == Stats(X, cut[1], cut[2], c.p) IN Near(q, K, LenRSS(st, j), st.len * s2c)
    ELSE IF kind = "l2fix0" THEN LET st == Stats(X, cut[1], cut[2], c.p) IN Near(q, K, st.s2[j][j], s2c)
    ELSE IF kind = "l2sav" THEN LET st == Stats(X, cut[1], cut[2], c.p) IN Near(q, K, st.s1[j] * st.s1[j], st.len * s2c)
    ELSE IF kind = "l2chg" THEN
        LET a == Stats(X, cut[1], cut[2], c.p) b == Stats(X, cut[2], cut[3], c.p) f == AddStats(a, b, c.p) IN
        Near(q, K, a.len * b.len * LenRSS(f, j) - f.len * b.len * LenRSS(a, j) - f.len * a.len * LenRSS(b, j),
             f.len * a.len * b.len * s2c)
    ELSE IF kind = "l2loc" THEN
        LET f == Stats(X, cut[1], cut[4], c.p) inn == Stats(X, cut[2], cut[3], c.p)
            sur == AddStats(Stats(X, cut[1], cut[2], c.p), Stats(X, cut[3], cut[4], c.p), c.p) IN
        Near(q, K, inn.len * sur.len * LenRSS(f, j) - f.len * sur.len * LenRSS(inn, j) - f.len * inn.len * LenRSS(sur, j),
             f.len * inn.len * sur.len * s2c)
    ELSE IF kind = "var" THEN LET st == Stats(X, cut[1], cut[2], c.p) IN Near(q, K, VarNum(st, j), s2c)
    ELSE IF kind = "det" THEN LET st == Stats(X, cut[1], cut[2], c.p) IN Near(q, K, ScatterDet(st, c.p), 1)
    ELSE FALSE

Verdict(c) ==
    IF \E i \in 1..Len(c.obs) : ~ObsOK(c, c.obs[i])
    THEN LET i == CHOOSE x \in 1..Len(c.obs) : ~ObsOK(c, c.obs[x]) IN "fail:" \o c.obs[i][1] \o "_value_differs_from_definition"
    ELSE "ok"

Init == tid = 0 /\ verdict = "start"
Next == /\ tid < Len(Cases)
        /\ tid' = tid + 1
        /\ verdict' = Verdict(Cases[tid + 1])
        /\ PrintT(<<"VERDICT", Cases[tid + 1].id, verdict'>>)
=============================================================================
