----------------------------- MODULE Trace_Pelt -----------------------------
(***************************************************************************)
(* Stage C for C02 (and C15's PenaltyMonotone on recorded pairs): traces  *)
(* recorded from run_pelt / PELT are validated against the PROPERTY layer *)
(* (Segmentation.tla).  One TLC behaviour walks the whole JSON array and  *)
(* prints one total verdict per trace.                                    *)
(*                                                                         *)
(* record: n, m, beta, tol, C (C[s+1][e], 0 where s >= e), scores (n      *)
(* entries, scores[T] = reported optimum of prefix length T), cps.        *)
(* All numbers are integers: exact tables (tol = 0) or float values       *)
(* quantised to a unit chosen by the harness (tol = allowed deviation in  *)
(* units, DESIGN section 3, regime R3).                                   *)
(***************************************************************************)
EXTENDS Segmentation, TLC, Json, IOUtils

Cases == JsonDeserialize(IOEnv.TRACE_FILE)

VARIABLES tid, verdict

Tab(c) == [iv \in Intervals(c.n) |-> c.C[iv[1] + 1][iv[2]]]
Close(a, b, tol) == Abs(a - b) <= tol

Verdict(c) ==
    LET C   == Tab(c)
        q   == OptSeq(C, c.beta, c.n, c.m)          \* q[T + 1] = optimum of the prefix of length T
        f   == [T \in 0..c.n |-> q[T + 1]]
        cp  == Range(c.cps)
    IN IF \E i \in 1..Len(c.cps) : c.cps[i] < 1 \/ c.cps[i] > c.n - 1
         THEN "fail:changepoint_out_of_range"
       ELSE IF ~IsStrictlyIncreasing(c.cps) THEN "fail:not_strictly_increasing"
       ELSE IF \E sg \in SegmentsOf(cp, c.n) : LenOf(sg) < c.m THEN "fail:segment_too_short"
       ELSE IF c.n <= 40 /\ \E iv \in Intervals(c.n) : \E k \in (iv[1] + c.m)..(iv[2] - c.m) :
                  C[<<iv[1], k>>] + C[<<k, iv[2]>>] > C[iv] + c.tol
         THEN "skip:cost_violates_split_inequality"   \* outside the property's quantifier
       ELSE IF \E T \in c.m..c.n : ~Close(c.scores[T], f[T], c.tol) THEN "fail:prefix_optimum"
       ELSE IF ~Close(SegCost(C, c.beta, cp, c.n), f[c.n], c.tol) THEN "fail:segmentation_cost"
       ELSE IF ~Close(SegCost(C, c.beta, cp, c.n), c.scores[c.n], c.tol) THEN "fail:final_score"
       ELSE "ok"

Init == tid = 0 /\ verdict = "start"
Next == /\ tid < Len(Cases)
        /\ tid' = tid + 1
        /\ verdict' = Verdict(Cases[tid + 1])
        /\ PrintT(<<"VERDICT", Cases[tid + 1].id, verdict'>>)
=============================================================================
