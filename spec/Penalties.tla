------------------------------ MODULE Penalties ------------------------------
(***************************************************************************)
(* C15: thresholds and penalties follow their documented formulas and act *)
(* monotonically.  Fixed point: every real number r is the integer        *)
(* round(r * U), U = 10^4.  The transcendental constants (ln n, ln(k p),  *)
(* sqrt(ln n), sqrt(k ln n), ln(n L)) are supplied with each record by    *)
(* the harness (math.log / math.sqrt: trusted base); what the             *)
(* specification pins is WHICH FORMULA is used WITH WHICH ARGUMENTS       *)
(* (n, p, parameter count, scale) and the structural relations.  The      *)
(* chi-square terms of the intermediate family are taken from the         *)
(* implementation; only its structure is judged.                           *)
(* A scale is a rational sn / sd.                                          *)
(***************************************************************************)
EXTENDS Common, TLC, Json, IOUtils

U == 10000
Scaled(x, sn, sd) == (x * sn) \div sd          \* scale * x, truncated (tolerances absorb the unit)
Near(a, b, tol) == Abs(a - b) <= tol

(* ------------------------------ the formulas --------------------------- *)
PeltPenalty(p, lnN)          == 2 * p * lnN                        \* 2 p log n
SeededThreshold(p, sqrtLnN)  == 2 * p * sqrtLnN                    \* 2 p sqrt(log n)
CircularThreshold(p, lnNL)   == 2 * p * lnNL                       \* 2 p log(n * max_interval_length)
CapaPenalty(k, sqrtKLnN, lnN) == k * U + 2 * sqrtKLnN + 2 * lnN    \* k + 2 sqrt(k log n) + 2 log n
CapaPointPenalty(k, p, lnN)  == k * p * lnN                        \* as published by CAPA: n_params * p * log n
SparseAlpha(lnN)             == 2 * lnN
SparseBeta(lnKP)             == 2 * lnKP

RECURSIVE Cum(_, _)
Cum(q, j) == IF j = 0 THEN 0 ELSE q[j] + Cum(q, j - 1)

(* ------------------------------ record verdicts ------------------------ *)
\* fitted threshold / penalty of a detector: scale * default for the shape of the training data
ValueVerdict(c) ==
    LET want == IF c.what = "pelt" THEN PeltPenalty(c.p, c.ln_n)
                ELSE IF c.what = "seeded" THEN SeededThreshold(c.p, c.sqrt_ln_n)
                ELSE IF c.what = "circular" THEN CircularThreshold(c.p, c.ln_nl)
                ELSE IF c.what = "capa_collective" THEN CapaPenalty(c.k, c.sqrt_kln_n, c.ln_n)
                ELSE IF c.what = "capa_point" THEN CapaPointPenalty(c.k, c.p, c.ln_n)
                ELSE c.published                                   \* the detector's own default-threshold function
    IN IF c.q < 0 THEN "fail:negative"
       ELSE IF ~Near(c.q, Scaled(want, c.sn, c.sd), c.tol) THEN "fail:" \o c.what \o "_is_not_scale_times_documented_default"
       ELSE "ok"

\* MVCAPA penalty families: alpha and betas (p entries) for scale sn/sd, and the same for scale 1
FamilyVerdict(c) ==
    LET cum(al, be) == [j \in 1..c.p |-> al + Cum(be, j)]
        here == cum(c.alpha, c.betas)
        unit == cum(c.alpha1, c.betas1)
    IN IF c.alpha < 0 - c.tol \/ \E j \in 1..c.p : c.betas[j] < 0 - c.tol THEN "fail:negative_penalty_term"
       ELSE IF \E j \in 1..(c.p - 1) : here[j + 1] < here[j] - c.tol THEN "fail:cumulative_penalty_decreasing"
       ELSE IF \E j \in 1..c.p : ~Near(here[j], Scaled(unit[j], c.sn, c.sd), c.tol) THEN "fail:not_proportional_to_scale"
       ELSE IF c.fam = "dense" /\ ~(Near(c.alpha, Scaled(CapaPenalty(c.p * c.k, c.sqrt_pkln_n, c.ln_n), c.sn, c.sd), c.tol)
                                    /\ \A j \in 1..c.p : Abs(c.betas[j]) <= c.tol)
         THEN "fail:dense_is_not_capa_penalty_for_pk_parameters"
       ELSE IF c.fam = "sparse" /\ ~(Near(c.alpha, Scaled(SparseAlpha(c.ln_n), c.sn, c.sd), c.tol)
                                     /\ \A j \in 1..c.p : Near(c.betas[j], Scaled(SparseBeta(c.ln_kp), c.sn, c.sd), c.tol))
         THEN "fail:sparse_is_not_2logn_plus_2logkp_per_component"
       ELSE IF c.fam = "combined" /\ c.p >= 2 /\
               \E j \in 1..c.p : ~Near(here[j], Min({c.dense_cum[j], c.sparse_cum[j], c.inter_cum[j]}), c.tol)
         THEN "fail:combined_is_not_pointwise_minimum"
       ELSE "ok"

\* tuned threshold: the (1 - level) quantile of the training scores.  xs = sorted scores, q = qn/qd.
\* Every standard sample-quantile definition puts the quantile at a (1-based) position in
\* [K q, K q + 1]; the band is the envelope of those positions.
QuantileBand(xs, qn, qd, thr, tol) ==
    LET K  == Len(xs)
        lo == IF (K * qn) \div qd < 1 THEN 1 ELSE (K * qn) \div qd
        up == LET cc == (K * qn + qd - 1) \div qd + 1 IN IF cc > K THEN K ELSE cc
    IN xs[lo] - tol <= thr /\ thr <= xs[up] + tol
QuantileVerdict(c) ==
    IF ~(\A i \in 1..(Len(c.xs) - 1) : c.xs[i] <= c.xs[i + 1]) THEN "fail:harness_scores_not_sorted"
    ELSE IF ~QuantileBand(c.xs, c.qn, c.qd, c.thr, c.tol) THEN "fail:tuned_threshold_outside_quantile_band"
    ELSE IF Cardinality({i \in 1..Len(c.xs) : c.xs[i] > c.thr + c.tol}) * c.qd > (c.qd - c.qn) * Len(c.xs) + c.qd
      THEN "fail:more_than_level_fraction_exceeds"
    ELSE "ok"

\* a larger penalty never increases the number of changepoints (recorded counts for increasing scales)
MonotoneVerdict(c) == IF \A i \in 1..(Len(c.counts) - 1) : c.counts[i + 1] <= c.counts[i] THEN "ok"
                      ELSE "fail:larger_penalty_more_changepoints"

Verdict(c) == IF c.rec = "value" THEN ValueVerdict(c) ELSE IF c.rec = "family" THEN FamilyVerdict(c)
              ELSE IF c.rec = "quantile" THEN QuantileVerdict(c) ELSE MonotoneVerdict(c)

(* --------- stage A: structural properties of the formulas on a grid ---- *)
\* checked with TLC over a grid of constants supplied by the harness in GRID_FILE
Grid == JsonDeserialize(IOEnv.GRID_FILE)
FormulaStructure ==
    \A i \in 1..Len(Grid) : LET g == Grid[i] IN
        /\ PeltPenalty(g.p, g.ln_n) >= 0 /\ SeededThreshold(g.p, g.sqrt_ln_n) >= 0
        /\ CapaPenalty(g.k, g.sqrt_kln_n, g.ln_n) >= g.k * U                       \* at least the parameter count
        /\ CapaPenalty(g.p * g.k, g.sqrt_pkln_n, g.ln_n) >= CapaPenalty(g.k, g.sqrt_kln_n, g.ln_n) - 2   \* monotone in k
        /\ SparseAlpha(g.ln_n) + g.p * SparseBeta(g.ln_kp) >= SparseAlpha(g.ln_n)  \* cumulative sparse non-decreasing
        /\ \A sn \in {0, 1, 2, 37} : Scaled(PeltPenalty(g.p, g.ln_n), 2 * sn, 10) <= 2 * Scaled(PeltPenalty(g.p, g.ln_n), sn, 10) + 1

Cases == JsonDeserialize(IOEnv.TRACE_FILE)
VARIABLES tid, verdict
Init == tid = 0 /\ verdict = "start"
Next == /\ tid < Len(Cases)
        /\ tid' = tid + 1
        /\ verdict' = Verdict(Cases[tid + 1])
        /\ PrintT(<<"VERDICT", Cases[tid + 1].id, verdict'>>)
GridOK == FormulaStructure
=============================================================================
