-------------------------------- MODULE Pelt --------------------------------
(***************************************************************************)
(* IMPLEMENTATION LAYER for C02: skchange.change_detectors.pelt.run_pelt  *)
(* and get_changepoints, one action per loop iteration, same variables as *)
(* the code:                                                               *)
(*   opt    = opt_cost          (index 0..N, opt[0] = -beta)               *)
(*   prev   = prev_cpts         (index 0..N-1)                             *)
(*   cands  = cost_eval_starts  (after pruning)                            *)
(*   pend   = pending prune decisions (queue of start sets)               *)
(*   bi,cps = the loop variable and list of get_changepoints              *)
(* The cost table C is an arbitrary "program": any integer table that     *)
(* satisfies the split inequality.  It is generated from a free slack     *)
(* table d by  C(s,e) = max_k (C(s,k) + C(k,e)) + d(s,e)  with zero cost  *)
(* on unit intervals (normalisation, see lemma NormalisationLemma), or    *)
(* from integer data as len * RSS (TableMode = "l2data").                 *)
(*                                                                         *)
(* PruneMode = "delayed"   : a start flagged at end T is removed only     *)
(*                           M-1 iterations later (the repaired code);    *)
(* PruneMode = "immediate" : removed at once (the pinned tree; negative   *)
(*                           configuration, must violate PrefixOptimal).  *)
(* PruneMode = "nopenalty" : immediate and without "+ penalty" (mutant).  *)
(***************************************************************************)
EXTENDS Segmentation, TLC, Json

CONSTANTS N,          \* series length
          M,          \* min_segment_length, N >= 2M
          V,          \* largest slack / data value
          MaxBeta,    \* penalties 0..MaxBeta
          PruneMode,  \* "delayed" | "immediate" | "nopenalty"
          TableMode,  \* "slack" | "l2data"
          Emit,       \* print one CASE line per terminal state (stage B)
          NSlices, Slice   \* partition of the initial states for emission

ASSUME N >= 2 * M /\ M >= 1

Iv     == Intervals(N)
FreeIv == {iv \in Iv : LenOf(iv) >= 2}

VARIABLES C, beta, t, opt, prev, cands, pend, pc, bi, cps, evlog, d, pk
vars == <<C, beta, t, opt, prev, cands, pend, pc, bi, cps, evlog, d, pk>>

Delay == IF PruneMode = "delayed" THEN M - 1 ELSE 0

(* ------------------------- table construction ------------------------- *)
BuildSlack(dd) ==
    LET c[iv \in Iv] ==
          IF LenOf(iv) = 1 THEN 0
          ELSE Max({c[<<iv[1], k>>] + c[<<k, iv[2]>>] : k \in (iv[1] + 1)..(iv[2] - 1)}) + dd[iv]
    IN c

\* len * residual sum of squares of the integer data x[0..N-1]
RECURSIVE SumData(_, _, _, _)
SumData(x, s, e, pw) == IF s >= e THEN 0
                        ELSE (IF pw = 1 THEN x[s] ELSE x[s] * x[s]) + SumData(x, s + 1, e, pw)
BuildL2(x) == [iv \in Iv |-> LenOf(iv) * SumData(x, iv[1], iv[2], 2)
                             - SumData(x, iv[1], iv[2], 1) * SumData(x, iv[1], iv[2], 1)]

Coef(k) == (k * k * 37 + k * 101 + 13) % 997
SliceOf(w) == w % NSlices

Blank ==
    /\ C = <<>> /\ t = 0 /\ opt = <<>> /\ prev = <<>> /\ cands = {} /\ pend = <<>>
    /\ bi = 0 /\ cps = <<>> /\ evlog = <<>>

\* exhaustive initial states (cheap: the table is built by the Start action, in parallel)
InitAll ==
    /\ pk = 0 /\ pc = "start" /\ Blank
    /\ beta \in 0..MaxBeta
    /\ IF TableMode = "slack"
       THEN /\ d \in [FreeIv -> 0..V]
            /\ SliceOf(SumOver([iv \in FreeIv |-> d[iv] * Coef(10 * iv[1] + iv[2])], FreeIv) + 331 * beta) = Slice
       ELSE /\ d \in [0..(N - 1) -> 0..V]
            /\ SliceOf(SumOver([i \in 0..(N - 1) |-> d[i] * Coef(i)], 0..(N - 1)) + 331 * beta) = Slice

\* one initial state; the input is built by Pick steps so that -simulate can sample large spaces
PickDom == IF TableMode = "slack" THEN SortedSeq({100 * iv[1] + iv[2] : iv \in FreeIv})
           ELSE SortedSeq(0..(N - 1))
KeyOf(k) == IF TableMode = "slack" THEN <<PickDom[k] \div 100, PickDom[k] % 100>> ELSE PickDom[k]
InitPick ==
    /\ pk = 1 /\ pc = "pick" /\ Blank /\ beta = 0
    /\ d = IF TableMode = "slack" THEN [iv \in FreeIv |-> 0] ELSE [i \in 0..(N - 1) |-> 0]
Pick ==
    /\ pc = "pick"
    /\ IF pk <= Len(PickDom)
       THEN /\ \E v \in 0..V : d' = [d EXCEPT ![KeyOf(pk)] = v]
            /\ pk' = pk + 1 /\ UNCHANGED <<beta, pc>>
       ELSE /\ beta' \in 0..MaxBeta /\ pc' = "start" /\ UNCHANGED <<d, pk>>
    /\ UNCHANGED <<C, t, opt, prev, cands, pend, bi, cps, evlog>>

\* the code before the loop: opt_cost[0:M] = -penalty, opt_cost[M:2M] = cost of [0, i)
Start ==
    /\ pc = "start"
    /\ LET c == IF TableMode = "slack" THEN BuildSlack(d) ELSE BuildL2(d) IN
       /\ C' = c
       /\ opt' = [i \in 0..N |-> IF i < M THEN 0 - beta ELSE IF i < 2 * M THEN c[<<0, i>>] ELSE 0]
    /\ t' = 2 * M - 1
    /\ prev' = [i \in 0..(N - 1) |-> 0]
    /\ cands' = {0} /\ pend' = <<>> /\ pc' = "loop" /\ bi' = 0 /\ cps' = <<>> /\ evlog' = <<>>
    /\ UNCHANGED <<beta, d, pk>>

(* ------------------------------ run_pelt ------------------------------ *)
\* one iteration of the for loop: current_obs_ind = t, the prefix end is t + 1
Step ==
    /\ pc = "loop"
    /\ LET cs       == cands \cup {t - M + 1}            \* latest_start appended
           cand(s)  == opt[s] + C[<<s, t + 1>>] + beta    \* candidate_opt_costs
           best     == Min({cand(s) : s \in cs})
           flagged  == IF PruneMode = "nopenalty"
                       THEN {s \in cs : ~(cand(s) <= best)}
                       ELSE {s \in cs : ~(cand(s) <= best + beta)}   \* split_cost = 0
           pend2    == Append(pend, flagged)
       IN /\ \E a \in {s \in cs : cand(s) = best} :       \* np.argmin: any minimiser admitted
                /\ opt' = [opt EXCEPT ![t + 1] = best]
                /\ prev' = [prev EXCEPT ![t] = a]
          /\ IF Len(pend2) > Delay
             THEN cands' = cs \ Head(pend2) /\ pend' = Tail(pend2)
             ELSE cands' = cs /\ pend' = pend2
          /\ evlog' = Append(evlog, cs)
    /\ t' = t + 1
    /\ pc' = IF t + 1 > N - 1 THEN "back" ELSE "loop"
    /\ bi' = N - 1
    /\ UNCHANGED <<C, beta, cps, d, pk>>

(* --------------------------- get_changepoints -------------------------- *)
\* while i >= 0: changepoints.append(prev[i]); i = prev[i] - 1
Back ==
    /\ pc = "back"
    /\ IF bi >= 0
       THEN /\ cps' = Append(cps, prev[bi])
            /\ bi' = prev[bi] - 1
            /\ pc' = "back"
       ELSE \* return changepoints[-2::-1]: drop the last appended entry, reverse the rest
            /\ cps' = [i \in 1..(Len(cps) - 1) |-> cps[Len(cps) - i]]
            /\ bi' = bi
            /\ pc' = "done"
    /\ UNCHANGED <<C, beta, t, opt, prev, cands, pend, evlog, d, pk>>

Done == pc = "done" /\ UNCHANGED vars

Next     == Start \/ Step \/ Back
NextPick == Pick \/ Start \/ Step \/ Back

(* ------------------------------ invariants ----------------------------- *)
Running == pc \in {"loop", "back", "done"}

TypeOK == Running =>
    /\ t \in (2 * M - 1)..N
    /\ cands \subseteq 0..N
    /\ \A s \in cands : s = 0 \/ s >= M

\* Every prefix optimum computed so far is the true optimum (first two sentences of C02).
PrefixOptimal ==
    Running => LET f == OptRec(C, beta, N, M) IN \A T \in M..N : (T <= t) => opt[T] = f[T]

\* The recursion used as oracle equals the set-theoretic definition (checked once per table).
OptRecIsOpt ==
    (Running /\ t = 2 * M - 1) =>
        LET f == OptRec(C, beta, N, M) IN \A T \in M..N : f[T] = Opt(C, beta, T, M)

OptSeqIsOptRec ==
    (Running /\ t = 2 * M - 1) =>
        LET f == OptRec(C, beta, N, M) q == OptSeq(C, beta, N, M) IN \A T \in M..N : q[T + 1] = f[T]

\* No start that some later end still needs has been removed.
OptLast(f, T) == {s \in LastStarts(T, M) : f[s] + C[<<s, T>>] + beta = f[T]}
Offered       == {s \in 0..(t - M) : s = 0 \/ s >= M}
PruneSound ==
    pc = "loop" => LET f == OptRec(C, beta, N, M) IN
        \A T \in (t + 1)..N : (OptLast(f, T) \cap Offered) \subseteq cands

\* Only admissible intervals are ever scored.
AdmissibleOnly ==
    Running => \A k \in 1..Len(evlog) : \A s \in evlog[k] : (2 * M - 1 + k) - s >= M

\* The reported changepoints are an optimal segmentation and re-evaluate to the final score.
BacktrackOptimal ==
    pc = "done" =>
        /\ IsStrictlyIncreasing(cps)
        /\ PeltAdmits(C, beta, N, M, opt, Range(cps))
        /\ Len(cps) = Cardinality(Range(cps))

\* The tables really are "programs" the property quantifies over.
TableAdmissible == Running => SplitNeverIncreases(C, N)

\* C15: a larger penalty never increases the number of changepoints of ANY optimal segmentation
PenaltyMonotoneInv ==
    (Running /\ t = 2 * M - 1) => \A b2 \in 0..MaxBeta : PenaltyMonotone(C, beta, b2, N, M)

\* C12: reversing time (the table of the reversed series) leaves the optimal penalised cost unchanged
ReverseTable(c) == [iv \in Iv |-> c[<<N - iv[2], N - iv[1]>>]]
OptReversal == (Running /\ t = 2 * M - 1) => Opt(ReverseTable(C), beta, N, M) = Opt(C, beta, N, M)

(* Normalisation lemma: adding a per-sample constant u[i] to every interval containing i     *)
(* shifts every candidate of a prefix by the same amount, so the algorithm's decisions and    *)
(* the optimal segmentations are unchanged; hence zero unit cost loses no generality.        *)
NormalisationLemma ==
    (Running /\ t = 2 * M - 1 /\ TableMode = "slack") =>
        \A u \in [0..(N - 1) -> 0..1] :
            LET C2 == [iv \in Iv |-> C[iv] + SumOver(u, iv[1]..(iv[2] - 1))] IN
            /\ OptSegs(C2, beta, N, M) = OptSegs(C, beta, N, M)
            /\ SplitNeverIncreases(C2, N)

(* ------------------------------- emission ------------------------------ *)
CaseRecord ==
    [n |-> N, m |-> M, beta |-> beta,
     C |-> [s \in 0..(N - 1) |-> [e \in 1..N |-> IF s < e THEN C[<<s, e>>] ELSE 0]],
     scores |-> [i \in 1..N |-> opt[i]],
     opt |-> [T \in 1..N |-> IF T < M THEN 0 ELSE OptRec(C, beta, N, M)[T]],
     optsegs |-> {SortedSeq(cp) : cp \in OptSegs(C, beta, N, M)},
     evlog |-> [k \in 1..Len(evlog) |-> SortedSeq(evlog[k])],
     cps |-> cps]
EmitDone == (Emit /\ pc = "done") => PrintT(<<"CASE", ToJson(CaseRecord)>>)
=============================================================================
