---------------------------- MODULE Segmentation ----------------------------
(***************************************************************************)
(* PROPERTY LAYER for C02 (and C15's penalty monotonicity).               *)
(*                                                                         *)
(* What an acceptable PELT result is, set-theoretically: no pruning, no   *)
(* prefix table, no back-pointers.  A segmentation of the prefix [0, T)   *)
(* is a set cp of changepoints in 1..T-1; its segments are the gaps       *)
(* between consecutive elements of cp \cup {0, T}.  Ties are never        *)
(* resolved here: OptSegs is a set.                                        *)
(***************************************************************************)
EXTENDS Common

Bounds(cp, T)     == cp \cup {0, T}
NextB(b, x)       == Min({y \in b : y > x})
SegmentsOf(cp, T) == {<<x, NextB(Bounds(cp, T), x)>> : x \in Bounds(cp, T) \ {T}}

\* admissible segmentations of [0,T): every segment (first and last included) >= m long
Segs(T, m) == {cp \in SUBSET (1..(T - 1)) : \A sg \in SegmentsOf(cp, T) : LenOf(sg) >= m}

SegCost(C, beta, cp, T) ==
    SumOver([sg \in SegmentsOf(cp, T) |-> C[sg]], SegmentsOf(cp, T)) + beta * Cardinality(cp)

Opt(C, beta, T, m)     == Min({SegCost(C, beta, cp, T) : cp \in Segs(T, m)})
OptSegs(C, beta, T, m) == {cp \in Segs(T, m) : SegCost(C, beta, cp, T) = Opt(C, beta, T, m)}

\* Observable result admitted by the property: scores[T] is the optimum of every prefix of
\* length T >= m, the reported changepoints are one optimal segmentation of the whole series,
\* and (third sentence of the property) the final score is the cost of exactly that one.
PeltAdmits(C, beta, n, m, scores, cps) ==
    /\ \A T \in m..n : scores[T] = Opt(C, beta, T, m)
    /\ cps \in OptSegs(C, beta, n, m)
    /\ scores[n] = SegCost(C, beta, cps, n)

(***************************************************************************)
(* Unpruned optimal partitioning (the textbook recursion).  TLC proves it *)
(* equal to Opt on the small constants (lemma OptRecIsOpt, checked in     *)
(* Pelt.tla's model); trace validation uses it for larger n where         *)
(* SUBSET (1..n-1) is too big.  Last-segment starts are 0 or any s with   *)
(* m <= s <= T-m.                                                          *)
(***************************************************************************)
LastStarts(T, m) == {s \in 0..(T - m) : s = 0 \/ s >= m}
OptRec(C, beta, n, m) ==
    LET f[T \in 0..n] ==
          IF T = 0 THEN 0 - beta
          ELSE IF T < m THEN 0   \* never referenced: no admissible start lies in 1..m-1
          ELSE Min({f[s] + C[<<s, T>>] + beta : s \in LastStarts(T, m)})
    IN f

\* The same recursion built left to right as a sequence (entry T+1 holds the optimum of the prefix of length T):
\* each value is computed once, so it scales to series of a few hundred samples (TLC does not memoise recursive
\* function definitions).  Lemma OptSeqIsOptRec (Pelt.tla) ties it to OptRec on the small constants.
RECURSIVE OptSeqFrom(_, _, _, _, _)
OptSeqFrom(C, beta, n, m, acc) ==
    LET T == Len(acc) IN          \* acc = <<f[0], ..., f[T-1]>>
    IF T > n THEN acc
    ELSE OptSeqFrom(C, beta, n, m,
                    Append(acc, IF T < m THEN 0
                                ELSE Min({acc[s + 1] + C[<<s, T>>] + beta : s \in LastStarts(T, m)})))
OptSeq(C, beta, n, m) == OptSeqFrom(C, beta, n, m, <<0 - beta>>)

\* The split inequality under which the property quantifies over user-defined costs
SplitNeverIncreases(C, n) ==
    \A iv \in Intervals(n) : \A k \in (iv[1] + 1)..(iv[2] - 1) :
        C[<<iv[1], k>>] + C[<<k, iv[2]>>] <= C[iv]

(***************************************************************************)
(* C15, last sentence: a larger penalty never increases the number of     *)
(* changepoints.  Exchange argument: if cp1 is optimal for b1 and cp2 for *)
(* b2 > b1 then  cost(cp1)+b1|cp1| <= cost(cp2)+b1|cp2|  and              *)
(* cost(cp2)+b2|cp2| <= cost(cp1)+b2|cp1|; adding gives                    *)
(* (b2-b1)(|cp2|-|cp1|) <= 0.                                              *)
(***************************************************************************)
PenaltyMonotone(C, b1, b2, n, m) ==
    b1 < b2 => \A cp1 \in OptSegs(C, b1, n, m), cp2 \in OptSegs(C, b2, n, m) :
                  Cardinality(cp2) <= Cardinality(cp1)
=============================================================================
