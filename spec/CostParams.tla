------------------------------ MODULE CostParams ------------------------------
(***************************************************************************)
(* Growth beyond the listed properties (DESIGN section 11), attached to    *)
(* C01's mechanism "optimal/fixed parameter dispatch and parameter         *)
(* checking" (costs/base.py:59-84, costs/utils.py:14-83).                  *)
(*                                                                         *)
(* A cost is constructed with a FIXED parameter of some shape and fitted   *)
(* to data with p columns.  The constructor stores the parameter without   *)
(* looking at it; fit checks it against the data (check_mean, then         *)
(* check_var / check_cov) and either raises ValueError or stores the       *)
(* parameter the kernels broadcast over the columns.                       *)
(*                                                                         *)
(* PROPERTY LAYER: Valid (the documented domain: a scalar or one entry per *)
(* column; variances positive; covariance a positive definite p x p        *)
(* matrix, positive definiteness stated by Sylvester's criterion on exact  *)
(* integers) and Eff* (the per-column parameter the value is defined       *)
(* with).  IMPLEMENTATION LAYER: the checks in the order the code makes    *)
(* them, with `len`, `ndim`, `shape` of the arrays the code builds.        *)
(* Bound = "code" or a known-bad variant (negative configurations):        *)
(*    "var_nonneg"     check_var tests `< 0` (zero variance accepted)      *)
(*    "mean_any_len"   check_mean does not test the length                 *)
(*    "cov_diag_only"  positive definiteness tested on the diagonal only   *)
(***************************************************************************)
EXTENDS Common, TLC, Json

CONSTANTS Bound, Emit, MaxP

Costs     == {"L2Cost", "GaussianVarCost", "GaussianCovCost"}
MeanKinds == {"scalar", "len1", "lenp", "lenp1"}
VarKinds  == {"scalar_pos", "scalar_zero", "scalar_neg", "len1_pos", "lenp_pos", "lenp_one_zero", "lenp_one_neg", "lenp1_pos"}
CovKinds  == {"scalar_pos", "scalar_zero", "scalar_neg", "mat_pd", "mat_diag", "mat_indef", "mat_negdiag", "mat_bigger", "vector"}

VARIABLES cost, p, mkind, skind, stage, outcome
vars == <<cost, p, mkind, skind, stage, outcome>>

(* ---------------- the concrete parameter objects (small integers) -------------- *)
\* the mean as the code holds it after np.asarray / np.array([x]): a sequence
MeanSeq == IF mkind \in {"scalar", "len1"} THEN <<3>>
           ELSE IF mkind = "lenp" THEN [j \in 1..p |-> j - 2]        \* distinct per column: -1, 0, 1
           ELSE [j \in 1..(p + 1) |-> j - 2]
VarSeq  == IF skind = "scalar_pos" \/ skind = "len1_pos" THEN <<2>>
           ELSE IF skind = "scalar_zero" THEN <<0>>
           ELSE IF skind = "scalar_neg" THEN <<0 - 1>>
           ELSE IF skind = "lenp_pos" THEN [j \in 1..p |-> j]
           ELSE IF skind = "lenp_one_zero" THEN [j \in 1..p |-> IF j = p THEN 0 ELSE j]
           ELSE IF skind = "lenp_one_neg" THEN [j \in 1..p |-> IF j = 1 THEN 0 - 2 ELSE j]
           ELSE [j \in 1..(p + 1) |-> j]
\* the covariance as a square matrix of side CovSide (0: a 1-D array, ndim # 2)
CovSide == IF skind = "vector" THEN 0 ELSE IF skind = "mat_bigger" THEN p + 1 ELSE p
CovAt(i, j) ==
    IF skind = "scalar_pos" THEN (IF i = j THEN 2 ELSE 0)
    ELSE IF skind = "scalar_zero" THEN 0
    ELSE IF skind = "scalar_neg" THEN (IF i = j THEN 0 - 1 ELSE 0)
    ELSE IF skind = "mat_pd" \/ skind = "mat_bigger" THEN (IF i = j THEN 2 ELSE IF i - j = 1 \/ j - i = 1 THEN 1 ELSE 0)
    ELSE IF skind = "mat_diag" THEN (IF i = j THEN i ELSE 0)
    ELSE IF skind = "mat_indef" THEN (IF i = j THEN 1 ELSE 2)      \* p = 1: [[1]] is positive definite
    ELSE (IF i = j THEN (IF i = p THEN 0 - 1 ELSE 1) ELSE 0)       \* mat_negdiag
\* leading principal minors for side <= 3 (exact integers)
Minor(k) ==
    IF k = 1 THEN CovAt(1, 1)
    ELSE IF k = 2 THEN CovAt(1, 1) * CovAt(2, 2) - CovAt(1, 2) * CovAt(2, 1)
    ELSE CovAt(1, 1) * (CovAt(2, 2) * CovAt(3, 3) - CovAt(2, 3) * CovAt(3, 2))
         - CovAt(1, 2) * (CovAt(2, 1) * CovAt(3, 3) - CovAt(2, 3) * CovAt(3, 1))
         + CovAt(1, 3) * (CovAt(2, 1) * CovAt(3, 2) - CovAt(2, 2) * CovAt(3, 1))
PosDef(side) == \A k \in 1..side : Minor(k) > 0           \* Sylvester (all matrices here are symmetric)

(* ------------------------------ property layer ------------------------- *)
UsesVar == cost = "GaussianVarCost"
UsesCov == cost = "GaussianCovCost"
Valid ==
    /\ Len(MeanSeq) \in {1, p}
    /\ (UsesVar => Len(VarSeq) \in {1, p} /\ \A j \in 1..Len(VarSeq) : VarSeq[j] > 0)
    /\ (UsesCov => CovSide = p /\ PosDef(p))
Expected == IF Valid THEN "OK" ELSE "ValueError@fit"
\* the per-column parameter the value is defined with (the property layer's broadcast)
EffMean == [j \in 1..p |-> IF Len(MeanSeq) = 1 THEN MeanSeq[1] ELSE MeanSeq[j]]
EffVar  == [j \in 1..p |-> IF Len(VarSeq) = 1 THEN VarSeq[1] ELSE VarSeq[j]]
EffCov  == [i \in 1..p |-> [j \in 1..p |-> CovAt(i, j)]]

(* --------------------------- implementation layer ---------------------- *)
Init ==
    /\ cost \in Costs /\ p \in 1..MaxP /\ mkind \in MeanKinds
    /\ skind \in (IF cost = "L2Cost" THEN {"scalar_pos"} ELSE IF cost = "GaussianVarCost" THEN VarKinds ELSE CovKinds)
    /\ stage = "constructed" /\ outcome = "none"         \* the constructor stores the parameter unchecked

CheckMean ==
    /\ stage = "constructed"
    /\ IF Bound # "mean_any_len" /\ Len(MeanSeq) # 1 /\ Len(MeanSeq) # p
       THEN stage' = "done" /\ outcome' = "ValueError@fit"
       ELSE stage' = (IF cost = "L2Cost" THEN "checked" ELSE "mean_ok") /\ outcome' = outcome
    /\ UNCHANGED <<cost, p, mkind, skind>>

CheckVar ==
    /\ stage = "mean_ok" /\ UsesVar
    /\ IF Len(VarSeq) # 1 /\ Len(VarSeq) # p THEN stage' = "done" /\ outcome' = "ValueError@fit"
       ELSE IF \E j \in 1..Len(VarSeq) : (IF Bound = "var_nonneg" THEN VarSeq[j] < 0 ELSE VarSeq[j] <= 0)
       THEN stage' = "done" /\ outcome' = "ValueError@fit"
       ELSE stage' = "checked" /\ outcome' = outcome
    /\ UNCHANGED <<cost, p, mkind, skind>>

CheckCov ==
    /\ stage = "mean_ok" /\ UsesCov
    /\ IF CovSide = 0 THEN stage' = "done" /\ outcome' = "ValueError@fit"            \* ndim # 2
       ELSE IF CovSide # p THEN stage' = "done" /\ outcome' = "ValueError@fit"       \* shape
       ELSE IF (IF Bound = "cov_diag_only" THEN \E k \in 1..p : CovAt(k, k) <= 0 ELSE ~PosDef(p))
       THEN stage' = "done" /\ outcome' = "ValueError@fit"                           \* eigenvalues
       ELSE stage' = "checked" /\ outcome' = outcome
    /\ UNCHANGED <<cost, p, mkind, skind>>

Precompute ==     \* the rest of _fit: prefix sums / inverse covariance; cannot fail on a valid parameter
    /\ stage = "checked" /\ stage' = "done" /\ outcome' = "OK"
    /\ UNCHANGED <<cost, p, mkind, skind>>

Next == CheckMean \/ CheckVar \/ CheckCov \/ Precompute

(* -------------------------------- invariants --------------------------- *)
Total == stage = "done" => outcome = Expected
\* a parameter that passes is one the kernels can broadcast: one entry, or one per column
Broadcastable == (stage = "done" /\ outcome = "OK") =>
    /\ Len(MeanSeq) \in {1, p}
    /\ (UsesVar => Len(VarSeq) \in {1, p} /\ \A j \in 1..p : EffVar[j] > 0)
    /\ (UsesCov => Minor(p) > 0)                                  \* log det and the inverse exist
\* every check is reached by some grid point and every outcome occurs (vacuity guard, read with -coverage)
Progress == stage \in {"constructed", "mean_ok", "checked", "done"}

EmitDone == (Emit /\ stage = "done") =>
    PrintT(<<"CASE", ToJson([cost |-> cost, p |-> p, mkind |-> mkind, skind |-> skind, expect |-> Expected,
                             mean |-> MeanSeq, var |-> IF UsesVar THEN VarSeq ELSE <<>>,
                             side |-> IF UsesCov THEN CovSide ELSE 0,
                             cov |-> IF UsesCov /\ CovSide > 0 THEN [i \in 1..CovSide |-> [j \in 1..CovSide |-> CovAt(i, j)]] ELSE <<>>,
                             effmean |-> IF Valid THEN EffMean ELSE <<>>,
                             effvar |-> IF Valid /\ UsesVar THEN EffVar ELSE <<>>,
                             effcov |-> IF Valid /\ UsesCov THEN EffCov ELSE <<>>])>>)
=============================================================================
