-------------------------------- MODULE Config --------------------------------
(***************************************************************************)
(* C14: documented-valid configurations always run; invalid ones fail     *)
(* with ValueError.                                                        *)
(*                                                                         *)
(* A grid point is a detector, a hyper-parameter setting given by small   *)
(* codes (below / at / above each documented bound), the scorer's minimum *)
(* size ms, and a data set (length relative to the documented minimum,    *)
(* NaN or not, p columns).  The state machine Construct -> Fit -> Predict *)
(* assigns each grid point its outcome class:                              *)
(*    "ValueError@construct" | "ValueError@fit" | "ValueError@scorer"     *)
(*    | "OK"                                                               *)
(* "ValueError@scorer" is the documented escape "the chosen cost cannot   *)
(* score segments as short as requested" (raised at fit when tuning, else *)
(* at predict).  The only further permitted outcome, RuntimeError for a   *)
(* non-positive-definite slice, cannot occur with the scorers used here.  *)
(* PROPERTY LAYER: Valid / MinLen / Expected; IMPLEMENTATION LAYER: the   *)
(* checks in the order the constructors and fit/predict make them.        *)
(* Bound = "code" | "bandwidth_min_2" | "growth_closed_at_1" |            *)
(*         "nan_unchecked" (negative configurations).                      *)
(***************************************************************************)
EXTENDS Common, TLC, Json

CONSTANTS Bound, Emit, NSlices, Slice

Dets == {"PELT", "MovingWindow", "SeededBinarySegmentation", "CircularBinarySegmentation", "CAPA", "MVCAPA",
         "StatThresholdAnomaliser"}
ScaleCodes  == {"neg", "zero", "pos", "none"}        \* -0.1, 0, 2, None
GrowthCodes == {"g100", "g101", "g150", "g200", "g201"}   \* 1, 1.01, 1.5, 2, 2.01
NCodes      == {"minus1", "min", "plus1", "plus2", "big"} \* data length relative to the documented minimum
LevelCodes  == {"l0", "l10", "l100"}                 \* 0 (invalid for the binary segmentations), 0.1, 1 (invalid)

VARIABLES det, scale, scale2, m, loff, growth, mxoff, bw, lohi, level, ms, ncode, nan, p, stage, outcome
vars == <<det, scale, scale2, m, loff, growth, mxoff, bw, lohi, level, ms, ncode, nan, p, stage, outcome>>

Uses(d, f) ==   \* which hyper-parameter codes a detector reads (others are fixed to one value in Init)
    IF f = "scale" THEN d # "StatThresholdAnomaliser"
    ELSE IF f = "scale2" THEN d \in {"CAPA", "MVCAPA"}              \* point_penalty_scale
    ELSE IF f = "m" THEN d \in {"PELT", "SeededBinarySegmentation", "CircularBinarySegmentation", "CAPA", "MVCAPA"}
    ELSE IF f \in {"loff", "growth", "level"} THEN d \in {"SeededBinarySegmentation", "CircularBinarySegmentation"}
    ELSE IF f = "mxoff" THEN d \in {"CAPA", "MVCAPA"}
    ELSE IF f = "bw" THEN d = "MovingWindow"
    ELSE IF f = "lohi" THEN d = "StatThresholdAnomaliser"
    ELSE IF f = "ms" THEN d \in {"PELT", "MovingWindow", "SeededBinarySegmentation", "CircularBinarySegmentation"}
    ELSE TRUE

(* ------------------------------ property layer ------------------------- *)
MinM(d) == IF d \in {"CAPA", "MVCAPA"} THEN 2 ELSE 1
\* the documented domain of the hyper-parameters
Valid ==
    /\ (Uses(det, "scale") => scale # "neg" /\ (scale = "none" => det \notin {"CAPA", "MVCAPA"}))
    /\ (Uses(det, "scale2") => scale2 \in {"zero", "pos"})
    /\ (Uses(det, "m") => m >= MinM(det))
    /\ (Uses(det, "loff") => loff >= 0)                   \* max_interval_length = 2m + loff >= 2m
    /\ (Uses(det, "growth") => growth \in {"g101", "g150", "g200"})      \* (1, 2]
    /\ (Uses(det, "level") => level = "l10")                             \* (0, 1)
    /\ (Uses(det, "mxoff") => mxoff >= 0)                 \* max_segment_length = m + mxoff >= m
    /\ (Uses(det, "bw") => bw >= 1)
    /\ (Uses(det, "lohi") => lohi \in {"lt", "eq"})
\* PELT's penalty tuning (penalty_scale = None) is documented as not supported yet: ValueError at fit
\* the documented minimum data length
MinLen == IF det \in {"PELT", "SeededBinarySegmentation", "CircularBinarySegmentation"} THEN 2 * m
          ELSE IF det = "MovingWindow" THEN 2 * bw
          ELSE IF det \in {"CAPA", "MVCAPA"} THEN m
          ELSE 2                                          \* the anomaliser wraps PELT(min_segment_length = 1)
DataLen == IF ncode = "minus1" THEN MinLen - 1 ELSE IF ncode = "min" THEN MinLen ELSE IF ncode = "plus1" THEN MinLen + 1
       ELSE IF ncode = "plus2" THEN MinLen + 2 ELSE MinLen + 25
\* the scorer cannot score segments as short as requested
ScorerTooCoarse == Uses(det, "ms") /\ ms > (IF det = "MovingWindow" THEN bw ELSE m)
Expected ==
    IF ~Valid THEN "ValueError@construct"
    ELSE IF nan \/ DataLen < MinLen THEN "ValueError@fit"
    ELSE IF ScorerTooCoarse THEN "ValueError@scorer"
    ELSE "OK"

(* --------------------------- implementation layer ---------------------- *)
Init ==
    /\ det \in Dets
    /\ scale \in IF Uses(det, "scale") THEN ScaleCodes ELSE {"pos"}
    /\ scale2 \in IF Uses(det, "scale2") THEN ScaleCodes ELSE {"pos"}
    /\ (Uses(det, "scale2") => scale = "pos" \/ scale2 = "pos")      \* vary one scale at a time
    /\ m \in IF Uses(det, "m") THEN 0..3 ELSE {1}
    /\ loff \in IF Uses(det, "loff") THEN {0 - 1, 0, 1, 5} ELSE {0}
    /\ growth \in IF Uses(det, "growth") THEN GrowthCodes ELSE {"g150"}
    /\ level \in IF Uses(det, "level") THEN LevelCodes ELSE {"l10"}
    /\ mxoff \in IF Uses(det, "mxoff") THEN {0 - 1, 0, 3} ELSE {0}
    /\ bw \in IF Uses(det, "bw") THEN 0..3 ELSE {1}
    /\ lohi \in IF Uses(det, "lohi") THEN {"lt", "eq", "gt"} ELSE {"lt"}
    /\ ms \in IF Uses(det, "ms") THEN {1, 2} ELSE {1}
    /\ ncode \in NCodes /\ nan \in BOOLEAN /\ p \in IF det = "StatThresholdAnomaliser" THEN {1} ELSE 1..3
    /\ stage = "new" /\ outcome = "none"
    /\ ((IF scale2 = "neg" THEN 97 ELSE IF scale2 = "zero" THEN 101 ELSE IF scale2 = "none" THEN 103 ELSE 0) + (IF scale = "neg" THEN 1 ELSE IF scale = "zero" THEN 2 ELSE IF scale = "pos" THEN 3 ELSE 4) * 7 + m * 11 + (loff + 2) * 13
        + (mxoff + 2) * 17 + bw * 19 + p * 23 + ms * 29 + (IF nan THEN 31 ELSE 0)
        + (IF ncode = "minus1" THEN 37 ELSE IF ncode = "min" THEN 41 ELSE IF ncode = "plus1" THEN 43 ELSE IF ncode = "plus2" THEN 47 ELSE 53)
        + (IF growth = "g100" THEN 59 ELSE IF growth = "g101" THEN 61 ELSE IF growth = "g150" THEN 67 ELSE IF growth = "g200" THEN 71 ELSE 73)
        + (IF level = "l0" THEN 79 ELSE IF level = "l10" THEN 83 ELSE 89)) % NSlices = Slice

\* the constructors' check_larger_than / check_in_interval calls
Construct ==
    /\ stage = "new"
    /\ LET ok == /\ (Uses(det, "scale") => scale # "neg")
                 /\ (Uses(det, "scale") /\ scale = "none" => det # "CAPA" /\ det # "MVCAPA")     \* check_larger_than(0, None) raises
                 /\ (Uses(det, "scale2") => scale2 \in {"zero", "pos"})
                 /\ (Uses(det, "m") => m >= MinM(det))
                 /\ (Uses(det, "loff") => loff >= 0)
                 /\ (Uses(det, "growth") => (IF Bound = "growth_closed_at_1" THEN growth # "g201" ELSE growth \in {"g101", "g150", "g200"}))
                 /\ (Uses(det, "level") => level = "l10")
                 /\ (Uses(det, "mxoff") => mxoff >= 0)
                 /\ (Uses(det, "bw") => bw >= (IF Bound = "bandwidth_min_2" THEN 2 ELSE 1))
                 /\ (Uses(det, "lohi") => lohi # "gt")
       IN IF ok THEN stage' = "constructed" /\ outcome' = outcome
          ELSE stage' = "done" /\ outcome' = "ValueError@construct"
    /\ UNCHANGED <<det, scale, scale2, m, loff, growth, mxoff, bw, lohi, level, ms, ncode, nan, p>>

\* fit: check_data (missing values, minimum length), then the threshold / penalty; tuning runs the scorer
Fit ==
    /\ stage = "constructed"
    /\ IF (nan /\ Bound # "nan_unchecked") \/ DataLen < MinLen THEN stage' = "done" /\ outcome' = "ValueError@fit"
       ELSE IF det = "PELT" /\ scale = "none" THEN stage' = "done" /\ outcome' = "ValueError@fit"     \* tuning not supported
       ELSE IF scale = "none" /\ ScorerTooCoarse THEN stage' = "done" /\ outcome' = "ValueError@scorer"
       ELSE stage' = "fitted" /\ outcome' = outcome
    /\ UNCHANGED <<det, scale, scale2, m, loff, growth, mxoff, bw, lohi, level, ms, ncode, nan, p>>

Predict ==
    /\ stage = "fitted" /\ stage' = "done"
    /\ outcome' = IF ScorerTooCoarse THEN "ValueError@scorer" ELSE "OK"
    /\ UNCHANGED <<det, scale, scale2, m, loff, growth, mxoff, bw, lohi, level, ms, ncode, nan, p>>

Next == Construct \/ Fit \/ Predict

(* -------------------------------- invariants --------------------------- *)
\* every grid point ends in exactly the expected class (PELT's unsupported tuning is "ValueError@fit")
ExpectedClass == IF Valid /\ det = "PELT" /\ scale = "none" THEN "ValueError@fit" ELSE Expected
Total == stage = "done" => outcome = ExpectedClass
\* OK implies the algorithms' search ranges are non-empty: a seeded interval exists, the first moving-window
\* cut (0, b, 2b) is inside the data
SearchRangesNonEmpty == (stage = "done" /\ outcome = "OK") =>
    /\ (det \in {"SeededBinarySegmentation", "CircularBinarySegmentation"} =>
           \E s \in 0..DataLen : \E e \in s..DataLen : e - s >= 2 * m /\ e - s <= (IF 2 * m + loff < DataLen THEN 2 * m + loff ELSE DataLen))
    /\ (det = "MovingWindow" => bw >= 1 /\ 2 * bw <= DataLen)

\* the number of candidates the search visits for an OK grid point: exact for the moving window (splits b..n-b),
\* "at least one" (written 1) for the binary segmentations, 0 = not applicable
SearchCount == IF det = "MovingWindow" THEN DataLen - 2 * bw + 1
               ELSE IF det \in {"SeededBinarySegmentation", "CircularBinarySegmentation"} THEN 1 ELSE 0

EmitDone == (Emit /\ stage = "done") =>
    PrintT(<<"CASE", ToJson([det |-> det, scale |-> scale, scale2 |-> scale2, m |-> m, loff |-> loff, growth |-> growth, mxoff |-> mxoff, bw |-> bw,
                             lohi |-> lohi, level |-> level, ms |-> ms, n |-> DataLen, nan |-> nan, p |-> p, expect |-> ExpectedClass,
                             search |-> IF ExpectedClass = "OK" THEN SearchCount ELSE 0])>>)
=============================================================================
